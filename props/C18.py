"""C18 - the listing file tells the truth about the output (DESIGN 4, C18) - partial."""
from vlib import Group
import C12 as _c12
import C05 as _c05

CH = ["--bounds-check", "--pointer-check"]
GROUPS = []
for bpa in (1, 2, 4):
    GROUPS.append(Group(name="C18/data_sections_dump.bpa%d" % bpa, unity="C18/u_listing.cpp", entry="h_listing",
                        functions=[("main (data sections dump)", "main/naken_asm.cpp", "harness+loop-contract, any address range"), ("output_hex_text", "main/naken_asm.cpp", "loop-contract")],
                        defines=["BPA=%d" % bpa], subst={"BPA": bpa}, loops="C18/listing.loops.json", expected_loops=2, unwind=20, checks=CH, timeout=900, tier="quick" if bpa != 4 else "thorough"))
GROUPS.append(Group(name="C18/list_output_tms9900", unity="C18/u_listfmt.cpp", entry="h_listfmt",
                    functions=[("list_output_tms9900", "disasm/tms9900.cpp", "harness+loop-contract, any range"), ("disasm_tms9900", "disasm/tms9900.cpp", "replaced by its contract (length 2/4/6), discharged by C08/disasm_tms9900")],
                    defines=["LISTCPU=9900"], loops="C18/listfmt.loops.json", expected_loops=2, unwind=14, checks=CH, timeout=900))
GROUPS.append(Group(name="C18/list_output_msp430", unity="C18/u_listfmt.cpp", entry="h_listfmt",
                    functions=[("list_output_msp430_both", "disasm/msp430.cpp", "harness+2 loop-contracts, any range (function text extracted verbatim; backs list_output_msp430 and list_output_msp430x)"), ("disasm_msp430/disasm_msp430x", "disasm/msp430.cpp", "replaced by their contract (even length 2..8), discharged for msp430 by C08/disasm_msp430")],
                    defines=["LISTCPU=430"], loops="C18/listfmt430.loops.json", expected_loops=2, unwind=14, checks=CH, timeout=900))
# byte-column family: bytes[] capacity 10 / 16 / 14 must hold 3 characters per byte of the longest instruction
for cpu, maxlen in (("6800", 3), ("6809", 5), ("68hc08", 4), ("z80", 4)):
    GROUPS.append(Group(name="C18/list_output_%s" % cpu, unity="C18/u_listbytes.cpp", entry="h_listbytes",
                        functions=[("list_output_%s" % cpu, "disasm/%s.cpp" % cpu, "harness+2 loop-contracts, any range (function text extracted verbatim)"), ("disasm_%s" % cpu, "disasm/%s.cpp" % cpu, "replaced by its contract (length 1..%d)%s" % (maxlen, " - ASSUMED, C08/disasm_%s does not finish" % cpu if cpu in ("6809", "z80") else ", discharged by C08/disasm_%s (thorough tier)" % cpu))],
                        defines=["LISTFN=list_output_%s" % cpu, "DISFN=disasm_%s" % cpu, "MAXLEN=%d" % maxlen, "DISHDR=disasm/%s.h" % cpu, "LISTINC=gen/list_output_%s.inc" % cpu],
                        subst={"FN": "list_output_%s" % cpu, "MAXLEN": maxlen}, loops="C18/listbytes.loops.json", expected_loops=2, unwind=14, checks=CH, timeout=900))
GROUPS += [g for g in _c12.GROUPS if g.name == "C12/assemble"]
# the dump shows exactly the bytes marked DL_DATA: the data directives' contracts carry "every byte they emit is marked DL_DATA"
GROUPS += [g for g in _c05.GROUPS if g.tier == "quick" and ("parse_db" in g.name or "parse_dc" in g.name)]
LEVEL = "proof"
EXPLANATION = ("Contract proofs (DFCC loop contracts, witness byte, ghost reader of the listing) that the 'data sections' dump shows every data byte exactly once at its address, "
               "that assemble() hands the listing callback exactly the address range of the instruction just emitted, that the data directives mark every byte they emit as data, and that seven "
               "per-CPU listing formatters (extracted verbatim, disassembler replaced by its C08 length contract) show every unit of the range once, in order, with its address and memory value; "
               "the other listing formatters, the symbol table text and the equality 'disassembly text == disassembly of the bytes shown' are not under contract, so the property is proved for these functions only.")
TRUSTED = ["fprintf replaced by a contract that recognises the dump's / the formatters' format strings", "Memory replaced by the witness contract (dump) or by an uninterpreted function of the address (formatters)", "disasm_<cpu> replaced by its length contract in the formatter groups (discharged by C08 for tms9900, msp430, 6800, 68hc08; assumed for 6809, z80)"]
MANIFEST = {
    "text": "Partial: for any image range and bytes-per-address, the data-section dump of the listing shows each data byte exactly once with its value on the line whose label + column is its address, and nothing else; assemble() passes exactly [start, location counter) to the listing formatter; for seven CPUs the formatter shows every unit of that range exactly once, in order, with its address and the value in memory (any range length).",
    "note": "Seven per-CPU listing formatters (tms9900, msp430/msp430x, 6800, 6809, 68hc08, z80) are under contract with the disassembler replaced by its length contract. The marker obligation of the data directives (.db/.dc*: every emitted byte is marked as data, which is what the dump selects) is shared with C05. the other 50 per-CPU list_output formatters, symbol table and low/high summary are not covered.",
    "technique": "CBMC DFCC loop contracts (witness + ghost listing reader) on main/naken_asm.cpp, core/AsmContext.cpp and on seven per-CPU listing formatters extracted verbatim from disasm/*.cpp",
}
