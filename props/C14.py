"""C14 - the MSP430 simulator executes every instruction as the architecture defines (DESIGN 4, C14)."""
from vlib import Group

SIM = "simulate/msp430.cpp"
F = [("SimulateMsp430::run", SIM, "harness (single step)"), ("SimulateMsp430::two_operand_exe", SIM, "harness"), ("SimulateMsp430::one_operand_exe", SIM, "harness"),
     ("SimulateMsp430::relative_jump_exe", SIM, "harness"), ("SimulateMsp430::get_data", SIM, "harness"), ("SimulateMsp430::put_data", SIM, "harness"),
     ("SimulateMsp430::update_reg", SIM, "harness"), ("SimulateMsp430::update_nz/update_c/update_v", "simulate/msp430.h", "harness"),
     ("Simulate::ram_read8/16, ram_write8/16", "simulate/Simulate.cpp", "harness")]
CH = []   # memory safety of the step is C15's obligation; here the obligations are the functional ones
OPN = {4: "mov", 5: "add", 6: "addc", 7: "subc", 8: "sub", 9: "cmp", 11: "bit", 12: "bic", 13: "bis", 14: "xor", 15: "and"}
ONE = {0: "rrc", 1: "swpb", 2: "rra", 3: "sxt", 4: "push", 5: "call"}
JMP = ["jne", "jeq", "jnc", "jc", "jn", "jge", "jl", "jmp"]
GROUPS = []


def g(name, defs, tier="quick"):
    GROUPS.append(Group(name="C14/" + name, unity="C14/u_msp430.cpp", entry="h_step", functions=F, defines=defs, unwind=18, checks=CH, timeout=600, tier=tier))


for op, nm in OPN.items():
    for bw in (0, 1):
        for a_s in (0, 1, 2, 3):
            for ad in (0, 1):
                if (a_s, ad) in ((2, 1), (3, 1)):
                    continue            # @Rn / @Rn+ source with indexed destination: combination of two covered mechanisms, left out to bound the run time
                quick = (a_s == 0 and ad == 0) or (nm == "mov" and (a_s, ad) in ((2, 0), (1, 1), (3, 0)) and bw == 0) or (nm == "add" and (a_s, ad, bw) == (3, 0, 1))
                g("two.%s.%s.As%d.Ad%d" % (nm, "b" if bw else "w", a_s, ad), ["FMT=2", "OP=%d" % op, "BW=%d" % bw, "AS=%d" % a_s, "AD=%d" % ad], "quick" if quick else "thorough")
        for a_s in ((0, 1, 2, 3) if nm in ("mov", "add") else ()):       # constant generator r3, and r2 (As 2,3 constants; As 1 absolute)
            g("two.%s.%s.cg3.As%d" % (nm, "b" if bw else "w", a_s), ["FMT=2", "OP=%d" % op, "BW=%d" % bw, "AS=%d" % a_s, "AD=0", "SREGSEL=1"], "quick" if (nm == "mov" and bw == 0 and a_s in (1, 3)) else "thorough")
        for a_s in ((1, 2, 3) if nm == "mov" else ()):
            g("two.%s.%s.r2.As%d" % (nm, "b" if bw else "w", a_s), ["FMT=2", "OP=%d" % op, "BW=%d" % bw, "AS=%d" % a_s, "AD=0", "SREGSEL=2"], "quick" if (nm == "mov" and bw == 0 and a_s == 1) else "thorough")
    g("two.%s.w.imm" % nm, ["FMT=2", "OP=%d" % op, "BW=0", "AS=3", "AD=0", "SREGSEL=3"], "quick" if nm in ("mov",) else "thorough")
    g("two.%s.w.sym" % nm, ["FMT=2", "OP=%d" % op, "BW=0", "AS=1", "AD=0", "SREGSEL=3"], "quick" if nm in ("mov",) else "thorough")
for op, nm in ONE.items():
    for bw in ((0, 1) if nm in ("rrc", "rra", "push") else (0,)):
        for a_s in (0, 1, 2, 3):
            g("one.%s.%s.As%d" % (nm, "b" if bw else "w", a_s), ["FMT=1", "OP=%d" % op, "BW=%d" % bw, "AS=%d" % a_s], "quick" if a_s == 0 and bw == 0 else "thorough")
for i, nm in enumerate(JMP):
    g("jump.%s" % nm, ["FMT=0", "OP=%d" % i], "quick" if nm in ("jne", "jge", "jmp") else "thorough")
LEVEL = "proof"
TRUSTED = ["spec_step() in contracts/C14/u_msp430.cpp is a hand transcription of SLAU144 sections 3.3-3.4",
           "Memory replaced by the lazy-memory contract (contracts/common/lazymem.h): a byte map with symbolic initial contents"]
MANIFEST = {
    "text": "Loop-free full-state contracts: for every (instruction, addressing mode, byte/word) class the real single step is compared with a specification transcribed from SLAU144 over all register numbers of the class, all register/SR values and symbolic memory.",
    "note": "Cycle counts, interrupts, DADD, unaligned word operands and -run over whole programs are outside; deviations of the simulator from the manual are listed known findings.",
    "technique": "CBMC contract harness (spec function + lazy memory contract) on simulate/msp430.cpp",
}
