"""C05 - data/location directives place exactly the specified bytes (DESIGN 4, C05)."""
from vlib import Group

DD = "core/directives_data.cpp"


def dc_group(fn, w, locals_, rng=""):
    pre = "%s(ptr_struct_tag(identifier=tag-AsmContext))::1::" % fn
    names = ["token", "token_type"] + locals_
    syms = ";".join("%s,%s%s" % (n, pre, n) for n in names)
    extra = "".join(", %s" % (("__CPROVER_object_whole(&%s)" % n) if n == "var" else n) for n in locals_)
    return Group(
        name="C05/%s" % fn, unity="C05/u_dc.cpp", entry="h_dc",
        functions=[(fn, DD, "harness+loop-contract")],
        defines=["WIDTH=%d" % w, "FN=%s" % fn], loops="C05/dc.loops.json", expected_loops=1,
        subst={"FN": fn, "W": w, "RANGE": rng, "LOCALS": extra, "SYMS": syms},
        checks=["--bounds-check", "--pointer-check", "--signed-overflow-check", "--conversion-check"][:3],
        timeout=300)


DB_P = "parse_db"

GROUPS = [
    Group(name="C05/parse_db[bounded]", unity="C05/u_db.cpp", entry="h_db",
          functions=[("parse_db", DD, "harness, bounded unwinding")], defines=["MAXTOK=4"],
          unwind=5, bounded="operand list of at most 2 operands (4 tokens), quoted strings of 0..3 characters without backslashes; values, addresses, pass symbolic",
          checks=["--bounds-check", "--pointer-check", "--signed-overflow-check"], timeout=600),
    Group(name="C05/parse_data_fill", unity="C05/u_misc.cpp", entry="h_fill", functions=[("parse_data_fill", DD, "harness+loop-contract")],
          loops="C05/fill.loops.json", expected_loops=1, checks=["--bounds-check", "--pointer-check", "--signed-overflow-check"], timeout=300),
    Group(name="C05/parse_resb", unity="C05/u_misc.cpp", entry="h_resb", functions=[("parse_resb", DD, "harness (loop-free)")],
          checks=["--bounds-check", "--pointer-check", "--signed-overflow-check"], timeout=300),
    Group(name="C05/parse_align_bytes", unity="C05/u_misc.cpp", entry="h_align_bytes", functions=[("parse_align_bytes", DD, "harness+loop-contract"), ("parse_align", DD, "loop-contract")],
          loops="C05/align.loops.json", expected_loops=1, checks=["--bounds-check", "--pointer-check", "--signed-overflow-check", "--div-by-zero-check"], timeout=300),
    Group(name="C05/parse_align_bits", unity="C05/u_misc.cpp", entry="h_align_bits", functions=[("parse_align_bits", DD, "harness+loop-contract"), ("parse_align", DD, "loop-contract")],
          loops="C05/align.loops.json", expected_loops=1, checks=["--bounds-check", "--pointer-check", "--signed-overflow-check", "--div-by-zero-check"], timeout=300),
    dc_group("parse_dc16", 2, ["data32", "data16"], "g_kval >= -32768 && g_kval <= 65535 &&"),
    dc_group("parse_dc32", 4, ["var", "udata32"]),
    dc_group("parse_dc64", 8, ["var", "udata64"]),
]

AB = "core/add_bin.cpp"
MEMF = [("Memory::write", "core/Memory.cpp", "harness, bounded page list"), ("Memory::write8", "core/Memory.cpp", "harness, bounded page list"),
        ("Memory::read8", "core/Memory.cpp", "harness, bounded page list"), ("Memory::read_debug", "core/Memory.cpp", "harness, bounded page list"),
        ("Memory::in_use", "core/Memory.cpp", "harness, bounded page list"), ("MemoryPage::set_data", "core/MemoryPage.h", "harness"), ("MemoryPage::set_debug", "core/MemoryPage.h", "harness")]
MEMB = "page list of at most 2 pages (one 16-bit write, possibly across a page boundary); addresses, data, markers symbolic; real 64 KiB pages"
for _w, _n in ((1, "add_bin8"), (2, "add_bin16"), (4, "add_bin32")):
    GROUPS.append(Group(name="C05/%s" % _n, unity="C05/u_addbin.cpp", entry="h_addbin", functions=[(_n, AB, "harness (loop-free, full domain)")],
                        defines=["WIDTH=%d" % _w], checks=["--bounds-check", "--pointer-check", "--signed-overflow-check"], timeout=200))
GROUPS += [
    Group(name="C05/Memory.write1[bounded]", unity="C05/u_mem.cpp", entry="h_mem_write1", functions=MEMF, unwind=3,
          bounded="one write into a fresh image (1 page), every address/data/marker symbolic, real 64 KiB pages; page walk closed by unwinding assertions",
          extra_cbmc=["--arrays-uf-always"], timeout=2400, mem_gb=28, tier="thorough"),
    Group(name="C05/MemoryPage.minmax", unity="C05/u_mem.cpp", entry="h_page_minmax", functions=[("MemoryPage::set_data", "core/MemoryPage.h", "harness (loop-free, all offsets)"), ("MemoryPage::set_debug", "core/MemoryPage.h", "harness")],
          unwind=3, extra_cbmc=["--arrays-uf-always"], timeout=900, mem_gb=20),
    Group(name="C05/Memory.write16[bounded]", unity="C05/u_mem.cpp", entry="h_mem_w16", functions=[("Memory::write16", "core/Memory.cpp", "harness, bounded page list"), ("Memory::read16", "core/Memory.cpp", "harness, bounded page list")],
          unwind=4, bounded=MEMB, extra_cbmc=["--arrays-uf-always"], timeout=900, mem_gb=28),
]

GROUPS.append(Group(name="C05/parse_org", unity="C05/u_org.cpp", entry="h_org", functions=[("parse_org", "core/directives.cpp", "harness (function text extracted verbatim), loop-free, all operand values"), ("AsmContext::set_org", "core/AsmContext.h", "real callee")],
                    checks=["--bounds-check", "--pointer-check"], timeout=300))
GROUPS.append(Group(name="C05/parse_db.escape[bounded]", unity="C05/u_dbesc.cpp", entry="h_dbesc", functions=[("parse_db", "core/directives_data.cpp", "harness, bounded")],
                    unwind=8, checks=["--bounds-check", "--pointer-check"], timeout=600, bounded="one quoted string of at most 4 characters, every character symbolic (backslashes included)"))
LEVEL = "proof"
TRUSTED = [
    "tokens_get/tokens_push/eval_expression/ignore_operand replaced by their contracts (arbitrary token; arbitrary value or unresolved)",
    "token streams shorter than 2^26 tokens; location counter below 2^30 at entry",
]
ASSUMPTIONS = []
EXPLANATION = ""

MANIFEST = {
    "text": "Unbounded proof by function contracts and DFCC loop contracts on the real directive handlers (any operand count, all values, both byte orders); Memory page list bounded stand-in reported separately.",
    "note": "Token reader and expression evaluator are replaced by their contracts; composition over a whole program is argued in DESIGN.md, not mechanised. See evidence trusted_base/assumptions.",
    "technique": "CBMC function contracts + DFCC loop contracts (ghost witness projection) on core/directives_data.cpp",
}
