"""C05 - data/location directives place exactly the specified bytes (DESIGN 4, C05)."""
from vlib import Group

DD = "core/directives_data.cpp"


def dc_group(fn, w, locals_, rng=""):
    pre = "%s(ptr_struct_tag(identifier=tag-AsmContext))::1::" % fn
    names = ["token", "token_type"] + locals_
    syms = ";".join("%s,%s%s" % (n, pre, n) for n in names)
    extra = "".join(", %s" % (("__CPROVER_object_whole(&%s)" % n) if n == "var" else n) for n in locals_)
    return Group(
        name="C05/%s" % fn, unity="C05/u_dc.cpp", entry="h_dc",
        functions=[(fn, DD, "harness+loop-contract")],
        defines=["WIDTH=%d" % w, "FN=%s" % fn], loops="C05/dc.loops.json", expected_loops=1,
        subst={"FN": fn, "W": w, "RANGE": rng, "LOCALS": extra, "SYMS": syms},
        checks=["--bounds-check", "--pointer-check", "--signed-overflow-check", "--conversion-check"][:3],
        timeout=300)


GROUPS = [
    dc_group("parse_dc16", 2, ["data32", "data16"], "g_kval >= -32768 && g_kval <= 65535 &&"),
    dc_group("parse_dc32", 4, ["var", "udata32"]),
    dc_group("parse_dc64", 8, ["var", "udata64"]),
]

LEVEL = "proof"
TRUSTED = [
    "tokens_get/tokens_push/eval_expression/ignore_operand replaced by their contracts (arbitrary token; arbitrary value or unresolved)",
    "token streams shorter than 2^26 tokens; location counter below 2^30 at entry",
]
ASSUMPTIONS = []
EXPLANATION = ""

MANIFEST = {
    "text": "Unbounded proof by function contracts and DFCC loop contracts on the real directive handlers (any operand count, all values, both byte orders); Memory page list bounded stand-in reported separately.",
    "note": "Token reader and expression evaluator are replaced by their contracts; composition over a whole program is argued in DESIGN.md, not mechanised. See evidence trusted_base/assumptions.",
    "technique": "CBMC function contracts + DFCC loop contracts (ghost witness projection) on core/directives_data.cpp",
}
