"""C10 - conditional assembly includes exactly the branch its condition selects (DESIGN 4, C10)."""
from vlib import Group

DI = "core/directives_if.cpp"
CH = ["--bounds-check", "--pointer-check", "--signed-overflow-check"]
GROUPS = [
    Group(name="C10/ifdef_ignore", unity="C10/u_ignore.cpp", entry="h_ifdef_ignore", functions=[("ifdef_ignore", DI, "harness+loop-contract")],
          loops="C10/ignore.loops.json", expected_loops=1, checks=CH, timeout=300),
    Group(name="C10/parse_if", unity="C10/u_parse_if.cpp", entry="h_parse_if", functions=[("parse_if", DI, "harness"), ("parse_ifdef_ignore", DI, "harness"), ("ifdef_ignore", DI, "real callee on a terminator stream")],
          unwind=4, checks=CH, timeout=300),
    Group(name="C10/parse_ifdef", unity="C10/u_parse_if.cpp", entry="h_parse_ifdef", functions=[("parse_ifdef", DI, "harness"), ("parse_ifdef_ignore", DI, "harness")],
          unwind=4, checks=CH, timeout=300),
]
IE = "core/ifdef_expression.cpp"
IEF = [("eval_ifdef_expression", IE, "harness (token script, symbolic operands)"), ("parse_ifdef_expression", IE, "harness"), ("eval_operation", IE, "harness"), ("get_operator", IE, "harness")]
ON = ["eq", "ge", "le", "gt", "lt", "or", "and"]
for a in range(7):
    GROUPS.append(Group(name="C10/expr.seq1.%s" % ON[a], unity="C10/u_ifexpr.cpp", entry="h_ifexpr", functions=IEF, defines=["NOPS=1", "O0=%d" % a], unwind=8, checks=CH[:2], timeout=300))
    GROUPS.append(Group(name="C10/expr.seq1.not.%s" % ON[a], unity="C10/u_ifexpr.cpp", entry="h_ifexpr", functions=IEF, defines=["NOPS=1", "O0=%d" % a, "NOTMASK=3"], unwind=8, checks=[], timeout=300, tier="thorough" if a not in (0, 5, 6) else "quick"))
# operator sequences of length 2 and 3: only those whose symbolic execution finishes are registered
# (chains in which the parser evaluates two operators of one precedence class back to back make CBMC's
# symex split on every intermediate `n == -1` test and do not finish within minutes; measured on this tree)
FEASIBLE = ['seq2.and.eq', 'seq2.and.ge', 'seq2.and.gt', 'seq2.and.le', 'seq2.and.lt', 'seq2.and.or', 'seq2.eq.and', 'seq2.eq.or', 'seq2.ge.and', 'seq2.ge.or', 'seq2.gt.and', 'seq2.gt.or', 'seq2.le.and', 'seq2.le.or', 'seq2.lt.and', 'seq2.lt.or', 'seq2.or.and', 'seq2.or.eq', 'seq2.or.ge', 'seq2.or.gt', 'seq2.or.le', 'seq2.or.lt', 'seq2.or.or', 'seq3.and.eq.or', 'seq3.and.or.and', 'seq3.and.or.lt', 'seq3.and.or.or', 'seq3.eq.and.lt', 'seq3.eq.and.or', 'seq3.eq.or.and', 'seq3.eq.or.lt', 'seq3.eq.or.or', 'seq3.gt.and.lt', 'seq3.gt.and.or', 'seq3.gt.or.and', 'seq3.gt.or.lt', 'seq3.gt.or.or', 'seq3.or.and.lt', 'seq3.or.and.or', 'seq3.or.eq.and', 'seq3.or.eq.or', 'seq3.or.or.and', 'seq3.or.or.lt', 'seq3.or.or.or']
IDX = {n: i for i, n in enumerate(ON)}
for nm in FEASIBLE:
    parts = nm.split(".")
    ops = [IDX[x] for x in parts[1:]]
    GROUPS.append(Group(name="C10/expr.%s" % nm, unity="C10/u_ifexpr.cpp", entry="h_ifexpr", functions=IEF,
                        defines=["NOPS=%d" % len(ops)] + ["O%d=%d" % (k, o) for k, o in enumerate(ops)], unwind=8, checks=[], timeout=300,
                        tier="quick" if (len(ops) == 2 and ops[0] in (0, 3, 5, 6)) or nm in ("seq3.eq.and.or", "seq3.and.or.and", "seq3.or.and.or", "seq3.gt.or.lt") else "thorough"))
import C12 as _c12
GROUPS += [g for g in _c12.GROUPS if g.name in ("C12/assemble", "C12/parse_directives.endif", "C12/parse_directives.else", "C12/parse_directives.if", "C12/parse_directives.ifdef", "C12/parse_directives.ifndef")]
LEVEL = "proof"
TRUSTED = ["tokens_get replaced by a stream contract that emits an arbitrary unbounded stream over {EOF, EOL, '.', '#', endif, else, if, ifdef, ifndef, ENDIF, other}",
           "strcasecmp replaced by a loop-free contract for strings of at most 7 characters"]
MANIFEST = {
    "text": "Unbounded proof (DFCC loop contract, ghost nesting depth) that skipping an untaken branch stops exactly at the matching .else/.endif; loop-free contracts that the taken/untaken branch protocol follows the condition and that errors propagate; contracts on the condition parser (parse_ifdef_expression, get_operator, eval_operation) against the documented precedence for 44 operator sequences with symbolic operand values.",
    "note": "Token reader, expression evaluator and the nested assemble() are replaced by their contracts; same-precedence operator chains of the recursive condition parser do not finish and are not registered.",
    "technique": "CBMC function contracts + DFCC loop contract (ghost nesting depth) on core/directives_if.cpp and core/ifdef_expression.cpp",
}
