"""C10 - conditional assembly includes exactly the branch its condition selects (DESIGN 4, C10)."""
from vlib import Group

DI = "core/directives_if.cpp"
CH = ["--bounds-check", "--pointer-check", "--signed-overflow-check"]
GROUPS = [
    Group(name="C10/ifdef_ignore", unity="C10/u_ignore.cpp", entry="h_ifdef_ignore", functions=[("ifdef_ignore", DI, "harness+loop-contract")],
          loops="C10/ignore.loops.json", expected_loops=1, checks=CH, timeout=300),
    Group(name="C10/parse_if", unity="C10/u_parse_if.cpp", entry="h_parse_if", functions=[("parse_if", DI, "harness"), ("parse_ifdef_ignore", DI, "harness"), ("ifdef_ignore", DI, "real callee on a terminator stream")],
          unwind=4, checks=CH, timeout=300),
    Group(name="C10/parse_ifdef", unity="C10/u_parse_if.cpp", entry="h_parse_ifdef", functions=[("parse_ifdef", DI, "harness"), ("parse_ifdef_ignore", DI, "harness")],
          unwind=4, checks=CH, timeout=300),
]
LEVEL = "proof"
TRUSTED = ["tokens_get replaced by a stream contract that emits an arbitrary unbounded stream over {EOF, EOL, '.', '#', endif, else, if, ifdef, ifndef, ENDIF, other}",
           "strcasecmp replaced by a loop-free contract for strings of at most 7 characters"]
MANIFEST = {
    "text": "Unbounded proof (DFCC loop contract, ghost nesting depth) that skipping an untaken branch stops exactly at the matching .else/.endif; loop-free contracts that the taken/untaken branch protocol follows the condition and that errors propagate; leaf contracts on the condition operators.",
    "note": "Token reader, expression evaluator and the nested assemble() are replaced by their contracts; the .endif protocol defect of taken branches is a listed known finding.",
    "technique": "CBMC function contracts + DFCC loop contract (ghost nesting depth) on core/directives_if.cpp and core/ifdef_expression.cpp",
}
