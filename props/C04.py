"""C04 - constant expressions evaluate to their arithmetic value (DESIGN 4, C04)."""
from vlib import Group

V = "core/Var.cpp"
O = "core/Operator.cpp"
CH = ["--bounds-check", "--pointer-check", "--div-by-zero-check"]
VARF = [("Var::add", V), ("Var::sub", V), ("Var::logical_and", V), ("Var::logical_or", V), ("Var::logical_xor", V),
        ("Var::shift_left", V), ("Var::shift_right", V), ("Var::negative", "core/Var.h"), ("Var::complement", "core/Var.h"),
        ("Var::set_int", "core/Var.h"), ("Var::get_bin32", V), ("Var::get_bin64", V), ("Var::get_int32", "core/Var.h")]
GROUPS = [
    Group(name="C04/Var.binops", unity="C04/u_var.cpp", entry="h_var_binop", functions=[(f, p, "harness (loop-free, full domain)") for f, p in VARF], checks=CH, timeout=300),
    Group(name="C04/Var.divmod", unity="C04/u_var.cpp", entry="h_var_divmod", functions=[("Var::div", V, "harness (loop-free, full domain)"), ("Var::mod", V, "harness (loop-free, full domain)")],
          checks=CH + ["--signed-overflow-check"], timeout=300),
    # C04/Var.divmod.values (quotient/remainder identity) was tried as a bounded group and removed: two 64-bit symbolic dividers do not
    # finish within 900 s on any back end even for |divisor| < 128; the guard contract above (zero / INT64_MIN / -1) is full-domain.
    Group(name="C04/Var.mul.values[bounded]", unity="C04/u_var.cpp", entry="h_var_mul", defines=["SMALLMUL"], functions=[("Var::mul", V, "harness")], checks=CH, timeout=600,
          bounded="product value for |right operand| <= 16, left operand full 64-bit (64x64-bit symbolic multiplication does not scale)"),
    Group(name="C04/Operator.set_operator", unity="C04/u_var.cpp", entry="h_set_operator", functions=[("Operator::set_operator", O, "harness (loop-free, all strings of <= 3 characters)")], checks=CH, timeout=300),
    Group(name="C04/Operator.execute", unity="C04/u_var.cpp", entry="h_execute", functions=[("Operator::execute", O, "harness (loop-free, full domain)")], checks=CH, timeout=300),
]
EV = "core/eval_expression.cpp"
EVF = [("EvalExpression::run", EV, "harness (token script, symbolic values)"), ("EvalExpression::execute_stack", EV, "harness"),
       ("eval_expression(AsmContext*, Var&)", EV, "harness"), ("EvalExpression::VarStack/OperStack", "core/eval_expression.h", "harness")]
OPS = ["mul", "div", "mod", "add", "sub", "shl", "shr", "and", "xor", "or"]
OCLS = [0, 0, 0, 1, 1, 2, 2, 3, 4, 5]
ECH = ["--bounds-check", "--pointer-check", "--div-by-zero-check"]
REP = [0, 3, 5, 7, 8, 9]          # one representative operator per precedence class
for a in range(10):
    GROUPS.append(Group(name="C04/run.seq1.%s" % OPS[a], unity="C04/u_eval.cpp", entry="h_eval_seq", functions=EVF,
                        defines=["NOPS=1", "O0=%d" % a], checks=ECH, unwind=8, timeout=300))
    for b in range(10):
        GROUPS.append(Group(name="C04/run.seq2.%s.%s" % (OPS[a], OPS[b]), unity="C04/u_eval.cpp", entry="h_eval_seq", functions=EVF,
                            defines=["NOPS=2", "O0=%d" % a, "O1=%d" % b], checks=ECH[2:], unwind=8, timeout=300,
                            tier="quick" if (a in REP and b in REP and (a + b) % 2 == 0) or (a, b) in ((1, 3), (3, 2), (9, 1)) else "thorough"))
        for c in range(10):
            GROUPS.append(Group(name="C04/run.seq3.%s.%s.%s" % (OPS[a], OPS[b], OPS[c]), unity="C04/u_eval.cpp", entry="h_eval_seq", functions=EVF,
                                defines=["NOPS=3", "O0=%d" % a, "O1=%d" % b, "O2=%d" % c], checks=ECH[2:], unwind=8, timeout=300,
                                tier="quick" if (a in REP and b in REP and c in REP and (OCLS[a] > OCLS[b] > OCLS[c] or (a + 3 * b + 5 * c) % 11 == 0)) else "thorough"))

EVU = EVF + [("EvalExpression::parse_unary_new", EV, "harness")]
def shape(n, ops=(), tier="quick"):
    d = ["SHAPE=%d" % n] + ["O%d=%d" % (i, o) for i, o in enumerate(ops)]
    nm = "C04/run.shape%d%s" % (n, "".join("." + OPS[o] for o in ops))
    return Group(name=nm, unity="C04/u_eval.cpp", entry="h_eval_shape", functions=EVU, defines=d, checks=ECH[2:], unwind=8, timeout=300, tier=tier)
for n in (1, 2, 7, 20, 23, 25, 27):
    GROUPS.append(shape(n))
for a in range(10):
    for n in (3, 4, 8, 21, 22, 26):
        GROUPS.append(shape(n, (a,), "quick" if a in (0, 3, 9, 1) else "thorough"))
    for b in range(10):
        for n in (5, 6):
            # the harness excludes a shift result that feeds mul/div/mod (its value is beyond what the multiplier contract covers): not registered, the canary would be unreachable
            if (n == 5 and a == 5 and b <= 2) or (n == 6 and b == 5 and a <= 2):
                continue
            GROUPS.append(shape(n, (a, b), "quick" if (a in (0, 3, 9) and b in (0, 3, 9)) else "thorough"))
        if b not in (3,):
            GROUPS.append(shape(24, (a, b), "quick" if (a in (0, 3, 9) and b in (0, 4, 9)) else "thorough"))

for base, fn, n, tr in ((16, "tokens_hex_string_to_int", 6, "quick"), (8, "tokens_octal_string_to_int", 6, "quick"),
                        (2, "tokens_binary_string_to_int", 6, "quick"), (16, "tokens_hex_string_to_int", 10, "thorough")):
    GROUPS.append(Group(name="C04/literal.base%d.len%d" % (base, n), unity="C04/u_lit.cpp", entry="h_literal",
                        functions=[(fn, "core/tokens.cpp", "harness; bounded: strings of <= %d characters, unwinding %d with unwinding assertions" % (n, n + 3))],
                        defines=["BASE=%d" % base, "LITLEN=%d" % n], unwind=n + 3, checks=["--bounds-check", "--pointer-check"], timeout=1500, tier=tr,
                        bounded="digit strings of at most %d characters (all characters symbolic)" % n))

# the tokenizer contract carries "numeric literals are re-printed as signed decimals" (C04.lit obligation in the C16 harness)
from shared_groups import tokens_get_group
GROUPS.append(tokens_get_group("quick"))
LEVEL = "proof"
TRUSTED = ["+ - * on int64_t wrap (two's complement) in the shipped binary as they do in CBMC's bit-vector semantics"]
MANIFEST = {
    "text": "Loop-free full-domain contracts on the Var/Operator arithmetic; EvalExpression::run against a reference evaluator for every precedence-class sequence of up to 3 binary operators (values symbolic), unary/parenthesis/malformed shapes, literal converters complete by width.",
    "note": "Operator sequences longer than the enumerated shapes are covered only by the per-reduction argument; floating point and character literals are outside; see evidence.",
    "technique": "CBMC contract harnesses (full-domain symbolic operands) on core/Var.cpp, core/Operator.cpp, core/eval_expression.cpp, core/tokens.cpp",
}
