"""C08 - disassembly is total, local and tiles a range (DESIGN 4, C08)."""
from vlib import Group

CH = ["--bounds-check", "--pointer-check"]
# cpu: (unit, maxlen, unwind, tier, extra tables, twosafety)
CPUS = {
    "msp430": (2, 8, 140, "thorough", ["STRINGS_ABSTRACT", "CLASS_MASK=0xffbf", "CLASS_VAL=0x41b3"], False),
    "msp430.pop_x_r3": (2, 8, 140, "quick", ["STRINGS_ABSTRACT", "CLASS_MASK=0xffbf", "CLASS_VAL=0x41b3", "CLASS_ONLY"], False),
    "6502": (1, 3, 140, "quick", [], False),
    "avr8": (2, 4, 140, "quick", ["SPEC_AVR8_LEN"], False),
    "lc3": (2, 2, 140, "quick", [], False),
    "8008": (1, 3, 140, "quick", [], False),
    "1802": (1, 3, 140, "quick", ["CLASS_MASK=0xff", "CLASS_VAL=0x68"], False),
    "1802.prefix68": (1, 3, 140, "quick", ["CLASS_MASK=0xff", "CLASS_VAL=0x68", "CLASS_ONLY"], False),
    "pdp11": (2, 6, 140, "quick", ["STRINGS_ABSTRACT"], True),   # reads the following word before it knows the addressing mode needs it: locality is decided as 2-safety
    "tms9900": (2, 6, 140, "quick", [], False),
    "6800": (1, 3, 300, "quick", [], False),
    # 6809 was tried (length 1..5) and does not finish (solver out of memory at 10 GB with 2^14 objects): not decided
    # 68hc08 reads the second opcode byte before it knows the first is a prefix: 2-safety form; first byte 0x9e (prefix) is a class of its own (known finding)
    "68hc08": (1, 4, 300, "quick", ["STRINGS_ABSTRACT", "CLASS_MASK=0xff", "CLASS_VAL=0x9e"], True),
    "68hc08.prefix9e": (1, 4, 300, "quick", ["STRINGS_ABSTRACT", "CLASS_MASK=0xff", "CLASS_VAL=0x9e", "CLASS_ONLY"], True),
    "8051": (1, 3, 300, "quick", [], False),
    "4004": (1, 2, 300, "quick", [], False),
    "8048": (1, 2, 300, "quick", [], False),
    "f8": (1, 3, 300, "quick", [], False),
    "m8c": (1, 3, 300, "quick", [], False),
    "sweet16": (1, 3, 300, "quick", [], False),
    "65816": (1, 4, 300, "quick", [], False),
    "stm8": (1, 5, 900, "quick", ["STRINGS_ABSTRACT"], False),
    # z80 (reads ahead, 2-safety form) was tried and does not finish (out of memory at 10 GB, timeout at 2400 s with 30 GB): not decided
}
GROUPS = []
for cpuname, (unit, maxlen, unw, tier, tables, two) in CPUS.items():
    cpu = cpuname.split(".")[0]
    defs = ["CPU=%s" % cpu, "UNIT=%d" % unit, "MAXLEN=%d" % maxlen, "DISFN=disasm_%s" % cpu, "DISFILE=disasm/%s.cpp" % cpu, "TABLE1=table/%s.cpp" % cpu]
    defs += tables
    if two:
        defs.append("TWOSAFETY")
    GROUPS.append(Group(name="C08/disasm_%s" % cpuname, unity="C08/u_dis.cpp", entry="h_dis", c_sources=(["common/st_hash.c"] if "STRINGS_HASH" in tables else [] if "STRINGS_ABSTRACT" in tables else ["common/st_fmt.c"]),
                        functions=[("disasm_%s" % cpu, "disasm/%s.cpp" % cpu, "harness; table scans closed by unwinding %d with unwinding assertions" % unw),
                                   ("table_%s[]" % cpu, "table/%s.cpp" % cpu, "data")],
                        defines=defs, unwind=unw, checks=CH, timeout=(2400 if two or cpu == "stm8" else 900), mem_gb=(30 if two or cpu == "stm8" else 10), tier=tier, extra_cbmc=(["--object-bits", "14"] if two else [])))
for cpu, unit, maxlen, note in (("tms9900", 2, 6, "discharged by C08/disasm_tms9900"), ("6800", 1, 3, "discharged by C08/disasm_6800"), ("68hc08", 1, 4, "discharged by C08/disasm_68hc08"), ("6809", 1, 5, "ASSUMED: C08/disasm_6809 does not finish"), ("z80", 1, 4, "ASSUMED: C08/disasm_z80 does not finish")):
    GROUPS.append(Group(name="C08/disasm_range_%s" % cpu, unity="C08/u_range.cpp", entry="h_range",
                        functions=[("disasm_range_%s" % cpu, "disasm/%s.cpp" % cpu, "harness+2 loop-contracts, any range (function text extracted verbatim)"), ("disasm_%s" % cpu, "disasm/%s.cpp" % cpu, "replaced by its contract (length %d..%d), %s" % (unit, maxlen, note))],
                        defines=["UNIT=%d" % unit, "MAXLEN=%d" % maxlen, "RANGEFN=disasm_range_%s" % cpu, "DISFN=disasm_%s" % cpu, "DISHDR=disasm/%s.h" % cpu, "RANGEINC=gen/disasm_range_%s.inc" % cpu],
                        subst={"FN": "disasm_range_%s" % cpu, "UNIT": unit, "MAXLEN": maxlen, "TLEN": 5 if unit == 2 else 3},
                        loops="C08/range.loops.json", expected_loops=2, unwind=14, checks=CH, timeout=900))
GROUPS.append(Group(name="C08/disasm_range_msp430", unity="C08/u_range430.cpp", entry="h_range430",
                    functions=[("disasm_range_msp430_both", "disasm/msp430.cpp", "harness+2 loop-contracts, any range incl. the interrupt vector part (function text extracted verbatim; backs disasm_range_msp430 and _msp430x)"), ("disasm_msp430/disasm_msp430x", "disasm/msp430.cpp", "replaced by their contract (even length 2..8), discharged for msp430 by C08/disasm_msp430")],
                    loops="C08/range430.loops.json", expected_loops=2, unwind=20, checks=CH, timeout=900))
for nm, extra in (("disasm_range_mips", []), ("disasm_range_mips.top_of_memory", ["TOP_ONLY"])):
    GROUPS.append(Group(name="C08/%s" % nm, unity="C08/u_range_mips.cpp", entry="h_range_mips",
                        functions=[("disasm_range_mips", "disasm/mips.cpp", "harness+loop-contract, any range%s (function text extracted verbatim)" % (" ending above 0xfffffffc" if extra else " ending at or below 0xfffffffc")), ("disasm_mips", "disasm/mips.cpp", "replaced by its contract (4-byte instructions)")],
                        defines=extra, loops="C08/range_mips.loops.json", expected_loops=1, unwind=14, checks=CH, timeout=900))
GROUPS.append(Group(name="C08/pdp11_addressing_mode", unity="C08/u_pdp11_mode.cpp", entry="h_pdp11_mode",
                    functions=[("pdp11_addressing_mode", "disasm/pdp11.cpp", "extracted verbatim; loop-free, all registers x modes, any memory")], checks=CH, timeout=300))
GROUPS.append(Group(name="C08/UtilContext.disasm.pages[bounded]", unity="C19/u_util.cpp", entry="h_disasm_pages",
                    functions=[("UtilContext::disasm(uint32_t, uint32_t)", "core/UtilContext.cpp", "harness, bounded")], defines=["WIDTH=1"],
                    unwind=8, checks=CH, timeout=900, bounded="address ranges touching at most 4 pages of 64 KiB anywhere in the 32-bit space (including the last page); which pages are in use and their used sub-ranges symbolic; the unwinding bound is the termination obligation"))
GROUPS[-1].unwind_is_spec = True
LEVEL = "proof"
TRUSTED = ["snprintf/sprintf replaced by a format-aware worst-case contract (contracts/common/st_fmt.c): size argument must fit the destination, output length = sum of per-conversion upper bounds",
           "Memory replaced by a 16-byte symbolic window starting at the instruction's address; an access outside it fails the locality obligation"]
MANIFEST = {
    "text": "Per-CPU contract on the real disassembler over all byte contents, addresses and flags: total, length in [unit, longest], reads only its own bytes (pdp11, which reads ahead: 2-safety form - two memories equal on the reported bytes give the same length and text), NUL-terminated text inside the caller's buffer; table scans closed by complete unwinding.",
    "note": "Claimed for the CPUs listed in evidence (functions_under_contract); the others are not decided. The range contracts use the disassembler's length contract (assumed, not discharged, for 6809 and z80). strcat/strcpy use CBMC's models.",
    "technique": "CBMC contract harness generated per CPU (window-memory and snprintf contracts) on disasm/*.cpp + table/*.cpp; DFCC loop contracts (in-order read ghost, ghost string lengths) on the range disassemblers disasm_range_tms9900, _msp430_both, _6800, _68hc08, _6809, _z80",
}
