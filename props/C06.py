"""C06 - operand values are encoded exactly or rejected, never silently truncated (DESIGN 4, C06)."""
from vlib import Group
import C01 as _c01

# the forms with a numeric operand: immediates, displacements, absolute/symbolic addresses, jump targets
GROUPS = []
for g in _c01.groups("C06", False, ("mov", "add", "cmp")) + _c01.jump_groups("C06"):
    if any(k in g.name for k in (".imm.", ".idx.", ".abs.", ".sym.", ".target")) or g.name.endswith((".idx", ".abs", ".sym")):
        GROUPS.append(g)
GROUPS.append(Group(name="C06/check_range", unity="C06/u_range.cpp", entry="h_check_range", functions=[("check_range", "asm/common.cpp", "harness (loop-free, all 2^32 values and bounds)")],
                    checks=["--bounds-check", "--pointer-check"], timeout=200))
GROUPS.append(Group(name="C06/get_reg_number[bounded]", unity="C06/u_range.cpp", entry="h_get_reg_number", functions=[("get_reg_number", "asm/common.cpp", "harness, unwinding 13")],
                    unwind=13, checks=["--bounds-check", "--pointer-check", "--signed-overflow-check"], timeout=300, bounded="strings of at most 11 characters (every 32-bit decimal), all characters symbolic"))
GROUPS.append(Group(name="C06/riscv.get_operands.mem", unity="C06/u_riscv_ops.cpp", entry="h_riscv_ops",
                    functions=[("get_operands", "asm/riscv.cpp", "harness (token-script contract), all 32-bit offsets, all registers"), ("get_x_register_riscv, get_register_number", "asm/riscv.cpp", "real callees")],
                    unwind=40, checks=["--bounds-check", "--pointer-check"], timeout=900))
# the RV32I form contracts carry both the encoding (C01) and the "exactly or rejected" obligations (C06)
GROUPS += [g for g in _c01.GROUPS if "/riscv." in g.name and "immediates" not in g.name]
LEVEL = "proof"
TRUSTED = _c01.TRUSTED
MANIFEST = {
    "text": "For every MSP430 core form with a numeric operand and all 2^32 operand values: accepted => the field extracted from the emitted bytes equals the manual's encoding of that value and the value lies in the manual's range (signed U unsigned spelling); otherwise the instruction is rejected with nothing emitted. Jump targets: all (address, target) pairs. check_range() leaf contract.",
    "note": "Range checks of the other CPUs (about 700 sites) are not under contract; injectivity follows from the spec being injective per form on the accepted range (argued in DESIGN.md).",
    "technique": "CBMC contract harness (spec function from SLAU144, full 32-bit operand domain) on asm/msp430.cpp, asm/common.cpp",
}
