"""C03 - every output format carries exactly the assembled memory image (DESIGN 4, C03)."""
from vlib import Group

CH = ["--bounds-check", "--pointer-check", "--signed-overflow-check"]
GROUPS = [
    Group(name="C03/write_hex", unity="C03/u_hex.cpp", entry="h_write_hex",
          functions=[("write_hex", "fileio/write_hex.cpp", "harness+loop-contract"), ("write_hex_line", "fileio/write_hex.cpp", "loop-contract")],
          loops="C03/hex.loops.json", expected_loops=2, checks=CH, timeout=600),
    Group(name="C03/write_bin", unity="C03/u_bin.cpp", entry="h_write_bin", functions=[("write_bin", "fileio/write_bin.cpp", "harness+loop-contract")],
          loops="C03/bin.loops.json", expected_loops=1, checks=CH, timeout=300),
    Group(name="C03/write_srec", unity="C03/u_srec.cpp", entry="h_write_srec",
          functions=[("write_srec", "fileio/write_srec.cpp", "harness+loop-contract"), ("write_srec_line", "fileio/write_srec.cpp", "loop-contract"), ("write_srec_header", "fileio/write_srec.cpp", "harness")],
          loops="C03/srec.loops.json", expected_loops=2, checks=CH, timeout=600),
    Group(name="C03/write_srec.any_entry_point", unity="C03/u_srec.cpp", entry="h_write_srec", defines=["ANY_ENTRY"],
          functions=[("write_srec", "fileio/write_srec.cpp", "harness+loop-contract")],
          loops="C03/srec.loops.json", expected_loops=2, checks=CH, timeout=600),
    Group(name="C03/write_wdc", unity="C03/u_wdc.cpp", entry="h_write_wdc", functions=[("write_wdc", "fileio/write_wdc.cpp", "harness+loop-contract"), ("write_int24", "fileio/write_wdc.cpp", "real callee")],
          loops="C03/wdc.loops.json", expected_loops=1, checks=CH[:2], timeout=900, extra_cbmc=["--arrays-uf-always"]),
    Group(name="C03/write_uf2", unity="C03/u_uf2.cpp", entry="h_write_uf2", functions=[("write_uf2", "fileio/write_uf2.cpp", "harness+loop-contract"), ("uf2_write_block_header", "fileio/write_uf2.cpp", "real callee"), ("uf2_write_block_footer", "fileio/write_uf2.cpp", "real callee"), ("uf2_add_pico_ef", "fileio/write_uf2.cpp", "real callee, loops unwound 256/220"), ("FileIo::write_int32_le", "fileio/FileIo.cpp", "real callee")],
          loops="C03/uf2.loops.json", expected_loops=3, unwind=258, subst={"MAIN": "1"}, checks=CH[:2], timeout=1200),
]
LEVEL = "proof"
TRUSTED = ["fprintf/fputs/putc replaced by contracts that accept exactly the writer's format strings and feed a ghost decoder written from the file-format specification; glibc prints %02X of a value < 256 as two hex digits",
           "Memory::read8/read_debug replaced by the witness contract (one arbitrary witness address with ghost contents, every other address arbitrary)"]
MANIFEST = {
    "text": "Unbounded proof (nested DFCC loop contracts, witness projection, ghost decoder written from the format specification) that the hex / srec / bin / wdc / uf2 writers emit each written byte of an arbitrary image exactly once with its value and nothing else, with valid lengths and checksums.",
    "note": "ELF, Mach-O and Amiga writers are not covered; the readers are under the C17 safety/termination contracts only (no functional read-back contract); any address range is covered, including images that end at 0xffffffff (uf2: below 0xfffffe00, wdc: 24-bit addresses, bin: not the whole 4 GiB).",
    "technique": "CBMC DFCC loop contracts + ghost format decoder on fileio/write_hex.cpp, write_srec.cpp, write_bin.cpp, write_wdc.cpp, write_uf2.cpp (+ the real fileio/FileIo.cpp byte writers)",
}
