"""C13 - assembly is a deterministic function of the source alone (DESIGN 4, C13)."""
from vlib import Group

CH = ["--bounds-check", "--pointer-check"]
CTXF = [("AsmContext::AsmContext", "core/AsmContext.cpp", "harness (2-safety over arbitrary prior memory)"), ("AsmContext::init", "core/AsmContext.cpp", "harness"),
        ("tokens_reset", "core/tokens.cpp", "harness"), ("Macros::Macros", "core/Macros.cpp", "harness"), ("Macros::reset", "core/Macros.cpp", "harness"),
        ("Memory::Memory", "core/Memory.cpp", "harness"), ("Symbols::Symbols", "core/Symbols.cpp", "harness")]
GROUPS = [
    Group(name="C13/fresh_context", unity="C13/u_ctx.cpp", entry="h_fresh", functions=CTXF, unwind=4, checks=CH, timeout=600),
    Group(name="C13/init_between_passes", unity="C13/u_ctx.cpp", entry="h_init_between_passes", functions=CTXF[1:5], unwind=4, checks=CH, timeout=600),
    Group(name="C13/flag_protocol_all_cpus", unity="C02/u_protocol.cpp", entry="h_protocol", cpp_sources=["core/cpu_list.cpp"],
          functions=[("cpu_list[]", "core/cpu_list.cpp", "data; every row checked")], unwind=90, checks=CH, timeout=300),
    Group(name="C13/new_extension[bounded]", unity="C13/u_newext.cpp", entry="h_new_extension", functions=[("new_extension", "main/naken_asm.cpp", "harness, bounded")],
          unwind=16, checks=CH, timeout=600, bounded="output file names of at most 8 characters, all characters symbolic"),
]
LEVEL = "proof"
TRUSTED = []
MANIFEST = {
    "text": "2-safety contracts: a context built over arbitrary prior memory is fully determined; init() between passes resets exactly the per-pass state; the listing switch cannot change what the character reader returns; listing formatters are read-only on the context.",
    "note": "Process-level histories (naken_util asm) and option parsing in main() are not modelled; see evidence.",
    "technique": "CBMC self-composition / frame contracts on core/AsmContext.cpp, core/tokens.cpp, core/Macros.cpp, disasm list_output",
}
