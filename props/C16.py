"""C16 - naken_asm never crashes, hangs or corrupts memory, whatever the source text (DESIGN 4, C16)."""
from vlib import Group
from shared_groups import tokens_get_group
import C05 as _c05
import C04 as _c04

M = "core/Macros.cpp"
CH = ["--bounds-check", "--pointer-check", "--signed-overflow-check"]
GROUPS = [
    Group(name="C16/macros_push_define", unity="C16/u_macros.cpp", entry="h_push_define", functions=[("macros_push_define", M, "harness (loop-free, every stack depth)")], unwind=3, checks=CH, timeout=300),
    Group(name="C16/macros_expand_params.collect", unity="C16/u_macros.cpp", entry="h_expand_collect", functions=[("macros_expand_params (argument collection)", M, "harness+loop-contracts, unbounded character stream")],
          loops="C16/expand.loops.json", expected_loops=2, unwind=3, checks=CH, timeout=600),
    tokens_get_group(),
    Group(name="C16/tokens_get.len512", unity="C16/u_tokens.cpp", entry="h_tokens_get",
          functions=[("tokens_get", "core/tokens.cpp", "harness+7 loop-contracts, unbounded character stream, the real TOKENLEN"), ("tokens_get_char", "core/tokens.cpp", "loop-contract")],
          loops="C16/tokens.loops.json", expected_loops=7, unwind=515, checks=CH[:2], timeout=3000, mem_gb=40, tier="thorough", defines=["TLEN=512"], subst={"TLEN": 512}),
]
GROUPS += [g for g in _c05.GROUPS if "Memory.write1" in g.name or "Memory.write16" in g.name or "parse_align" in g.name]
GROUPS += [g for g in _c04.GROUPS if "Var.divmod" == g.name.split("/")[1]]
# the statement loop of assemble() owns two fixed 512-byte token buffers (the `equ` text loop is bounded by its loop invariant ptr < 511)
import C12 as _c12
GROUPS += [g for g in _c12.GROUPS if g.name == "C12/assemble"]
# the symbol table stores the record length in one byte: the long-name scenarios of the Symbols contract (C11) are a memory-safety obligation here
import C11 as _c11
GROUPS += [g for g in _c11.GROUPS if "long_name" in g.name]
LEVEL = "proof"
TRUSTED = ["the character reader is replaced by a stream contract returning an arbitrary byte or EOF per call (streams shorter than 2^28 characters)", "malloc succeeds; stack depth of the C recursion is not modelled"]
MANIFEST = {
    "text": "Memory-safety and termination contracts on the functions that own fixed buffers: the tokenizer (tokens_get/tokens_get_char, seven loop contracts with variants over an unbounded character stream, token buffers of 16 and of the real 512 bytes), macro expansion stack, macro argument collection over an unbounded character stream (loop contracts), Memory page walk at every address, .align termination, division guards.",
    "note": "macros_parse, include paths and the other encoders' operand arrays are not under contract (see evidence/DESIGN gap); resource exhaustion is out of scope.",
    "technique": "CBMC generated array-bounds/pointer/overflow obligations under DFCC loop contracts (invariants + decreases) on core/tokens.cpp, core/Macros.cpp, core/Memory.cpp, core/directives_data.cpp, core/Var.cpp",
}
