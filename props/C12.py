"""C12 - failure is atomic: diagnostics, exit status and output file agree (DESIGN 4, C12)."""
from vlib import Group

CH = ["--bounds-check", "--pointer-check"]
GROUPS = [
    Group(name="C12/main[argv-bounded]", unity="C12/u_main.cpp", entry="h_main", functions=[("main", "main/naken_asm.cpp", "harness; callees are contracts")],
          unwind=53, checks=CH, timeout=900,
          note="command line bounded to argc <= 5 and 7-character arguments (complete by unwinding assertions for that bound); program text unbounded (assemble() is a contract)"),
]
GROUPS.append(Group(name="C12/assemble", unity="C12/u_assemble.cpp", entry="h_assemble",
                    functions=[("AsmContext::assemble", "core/AsmContext.cpp", "harness+loop-contracts, unbounded statement stream"), ("AsmContext::directive", "core/AsmContext.cpp", "real callee")],
                    loops="C12/assemble.loops.json", expected_loops=2, unwind=10, checks=CH, timeout=900))
DIRS = ["define", "ifdef", "ifndef", "if", "endif", "else", "endr", "include", "binfile", "code", "bss", "macro", "pragma", "device", "set", "export",
        "entry_point", "align", "align_bits", "align_bytes", "equ", "def", "scope", "ends", "func", "endf", "low_address", "high_address", "big_endian",
        "little_endian", "list", "data_fill", "bogus"]
for d in DIRS:
    GROUPS.append(Group(name="C12/parse_directives.%s" % d, unity="C12/u_directives.cpp", entry="h_directive",
                        functions=[("parse_directives", "core/directives.cpp", "harness, directive spelling concrete"), ("static handlers of core/directives.cpp", "core/directives.cpp", "real callees")],
                        defines=['DIRNAME="%s"' % d], unwind=90, checks=CH, timeout=600, 
                        tier="quick" if d in ("define", "ifdef", "if", "endif", "else", "repeat", "endr", "set", "export", "equ", "align", "include", "func", "bogus", "entry_point") else "thorough"))
import C13 as _c13
GROUPS.append(Group(name="C12/init_keeps_errors", unity="C13/u_ctx.cpp", entry="h_init_between_passes", functions=_c13.CTXF[1:5], unwind=4, checks=CH, timeout=600))
# .repeat: "a block that is not closed by .endr, or a count below 1, is an error" is an obligation of the parse_repeat contract (C09)
import C09 as _c09
GROUPS += [g for g in _c09.GROUPS if g.name == "C09/parse_repeat"]
LEVEL = "proof"
TRUSTED = ["callees of main()/assemble() are replaced by contracts returning arbitrary status codes"]
MANIFEST = {
    "text": "Layered error-in => error-out contracts on main(), AsmContext::assemble(), parse_directives(), the conditional handlers and the MSP430 encoder; every callee status is symbolic.",
    "note": "Induction over the call tree is argued in DESIGN.md; command line bounded to 4 arguments of 7 characters; exit() paths inside library code (not reaching main's unlink) are outside the main() contract.",
    "technique": "CBMC contract harnesses with ghost event order on main/naken_asm.cpp, core/AsmContext.cpp, core/directives.cpp",
}
