"""C02 - two-pass consistency: label addresses and sizes identical in both passes (DESIGN 4, C02)."""
from vlib import Group
import C01 as _c01
import C05 as _c05

GROUPS = _c01.groups("C02", True, ("mov", "add", "cmp"))
# add_bin*: location counter advance identical in every pass/configuration; data directives: advance independent of pass
GROUPS += [g for g in _c05.GROUPS if any(k in g.name for k in ("add_bin", "parse_dc16", "parse_dc32", "parse_data_fill", "parse_resb", "parse_align_bytes"))]
GROUPS.append(Group(name="C02/flag_protocol_all_cpus", unity="C02/u_protocol.cpp", entry="h_protocol", cpp_sources=["core/cpu_list.cpp"],
                    functions=[("cpu_list[]", "core/cpu_list.cpp", "data; every row checked")], unwind=90, checks=["--bounds-check", "--pointer-check"], timeout=300,
                    defines=[]))
GROUPS.append(Group(name="C02/parse_varuint.two_pass", unity="C02/u_varuint.cpp", entry="h_varuint",
                    functions=[("parse_varuint", "core/directives_data.cpp", "harness, 2-safety over the two passes, all 32-bit operand values"), ("add_bin_varuint", "core/add_bin.cpp", "real callee, loop closed by unwinding 8 (at most 5 groups of 7 bits)")],
                    unwind=8, checks=["--bounds-check", "--pointer-check"], timeout=600))
# two-pass consistency of .set symbols: "after lock() (pass 2) a .set symbol still follows its assignments in source order" is an
# obligation of the Symbols contract (bounded scenario of C11); shared here in the thorough tier
import C11 as _c11
import copy as _copy
for _g in _c11.GROUPS:
    if "set_source_order" in _g.name:
        _g2 = _copy.copy(_g); _g2.tier = "thorough"; GROUPS.append(_g2)
LEVEL = "proof"
TRUSTED = _c01.TRUSTED + ["the set of encoders that use the pass-1 flag-byte protocol is determined by a source scan (memory_write at asm_context->address) done on every run (tools/prep_tree.py -> gen/protocol_encoders.inc)"]
MANIFEST = {
    "text": "2-safety contract per MSP430 instruction form: the real encoder run in pass 1 (operand resolved or forward reference) and in pass 2 (arbitrary value for forward references) reserves/emits the same size, reading back only its own flag byte; add_bin*/data directives advance identically in both passes; every cpu_list row that selects a flag-protocol encoder disables pass-1 writing.",
    "note": "The induction over the statement sequence is argued in DESIGN.md, not mechanised; variable-length forms of the other CPUs are covered only by the protocol lemma.",
    "technique": "CBMC 2-safety contract harness on asm/msp430.cpp, core/add_bin.cpp, core/directives_data.cpp; loop-free lemma over the real cpu_list[]",
}
