"""Obligation groups used by more than one property (kept here so that the property modules do not import each other in a cycle)."""
from vlib import Group


def tokens_get_group(tier="quick"):
    return Group(name="C16/tokens_get", unity="C16/u_tokens.cpp", entry="h_tokens_get",
                 functions=[("tokens_get", "core/tokens.cpp", "harness+7 loop-contracts, unbounded character stream"), ("tokens_get_char", "core/tokens.cpp", "loop-contract"),
                            ("tokens_unget_char", "core/tokens.cpp", "real callee"), ("process_escape", "core/tokens.cpp", "real callee")],
                 loops="C16/tokens.loops.json", expected_loops=7, unwind=20, checks=["--bounds-check", "--pointer-check"], timeout=2400, mem_gb=30, defines=["TLEN=16"], subst={"TLEN": 16}, tier=tier)
