"""C20 - linked object code is placed once, its calls bound to the final addresses (DESIGN 4, C20)."""
from vlib import Group
from shared_groups import tokens_get_group

CH = ["--bounds-check", "--pointer-check", "--signed-overflow-check"]
GROUPS = [
    Group(name="C20/link_function_mips", unity="C20/u_link.cpp", entry="h_link",
          functions=[("link_function_mips", "asm/mips.cpp", "extracted verbatim (tools/prep_tree.py EXTRACT) + harness + loop-contract, unbounded function size"), ("add_bin32", "core/add_bin.cpp", "harness")],
          loops="C20/link.loops.json", expected_loops=1, unwind=3, checks=CH[:2], timeout=900),
    Group(name="C20/AsmContext.link[bounded]", unity="C20/u_asmlink.cpp", entry="h_asmlink",
          functions=[("AsmContext::link", "core/AsmContext.cpp", "extracted verbatim + harness, bounded"), ("Linker::get_code_from_symbol", "core/Linker.cpp", "extracted verbatim, import list of 2")],
          defines=["MAXSYMS=3"], unwind=6, checks=CH[:2], timeout=900,
          bounded="needed-symbol lists of at most 3 names (initial length and growth during the loop symbolic), two import records of symbolic kind; a DFCC loop contract on the list loop was written (contracts/C20/asmlink.loops.json) but DFCC rejects an assignment to a local of the callee (tool limit), so the loop is closed by complete unwinding"),
    Group(name="C20/get_int", unity="C20/u_getint.cpp", entry="h_get_int", functions=[("get_int16_le/be, get_int32_le/be", "core/imports_get_int.cpp", "harness (loop-free, full domain)")],
          checks=CH[:2], timeout=200),
    Group(name="C20/lookup_by_offset[bounded]", unity="C20/u_obj.cpp", entry="h_lookup_by_offset", functions=[("imports_obj_symbol_table_lookup_by_offset", "core/imports_obj.cpp", "harness, bounded")],
          unwind=34, checks=CH[:2], timeout=900, bounded="one relocation entry; symbol table of 1..300 entries with symbolic contents, 24-bit symbol index below the table size"),
    Group(name="C20/lookup_by_name[bounded]", unity="C20/u_obj.cpp", entry="h_lookup_by_name", functions=[("imports_obj_symbol_table_lookup_by_name", "core/imports_obj.cpp", "harness, bounded")],
          unwind=34, checks=CH[:2], timeout=900, bounded="two symbol table entries of the same name (undefined reference, then definition); values symbolic"),
]
# symbol discovery: the tokenizer contract carries "imported code is searched only for names that are used" (C20.discover)
GROUPS.append(tokens_get_group("thorough"))
LEVEL = "other"
EXPLANATION = ("Contract proof (DFCC loop contract, unbounded function size, witness word) of the relocation step link_function_mips and of the byte-order helpers; "
               "the ELF32/ar parsers, Linker symbol discovery ('placed exactly once', 'unreferenced functions not included') and AsmContext::link are not under contract, "
               "so the property as a whole is claimed only partially.")
TRUSTED = ["imports_obj_find_name_from_offset, Symbols::lookup and Linker::search_code_from_symbol replaced by contracts returning arbitrary results",
           "link_function_mips is extracted verbatim from asm/mips.cpp (its translation unit shares enumerator names with other table headers and is 2.8 kLoC); nothing of the function body is dropped"]
MANIFEST = {
    "text": "Partial: for any function size the relocation loop copies every word unchanged except jal, whose 26-bit field is bound to the final address of the named symbol; unresolved symbols are errors; exactly size bytes are appended; AsmContext::link places every needed symbol (including those discovered while placing others) exactly once and hands the relocation step the offset and size reported by the defining import, archive or object (bounded list).",
    "note": "Object-file parsing, archive handling and symbol discovery are not decided.",
    "technique": "CBMC DFCC loop contract (witness word) on link_function_mips extracted verbatim from asm/mips.cpp + core/add_bin.cpp; bounded model checking of AsmContext::link / Linker::get_code_from_symbol (extracted verbatim) and of the ELF symbol lookups",
}
