"""C15 - every simulator survives every opcode from every state, deterministically (DESIGN 4, C15)."""
from vlib import Group

CH = ["--bounds-check", "--pointer-check", "--div-by-zero-check"]
# cpu: (class, extra includes, wf header, unwind, tier)
SIMS = {
    "lc3": ("SimulateLc3", [], None, 26, "quick"),
    "tms9900": ("SimulateTms9900", [], None, 26, "quick"),
    "msp430": ("SimulateMsp430", ["disasm/msp430.cpp", "table/msp430.cpp"], None, 26, "quick"),
    "8008": ("Simulate8008", ["disasm/8008.cpp", "table/8008.cpp"], "C15/wf_8008.h", 26, "quick"),
    "1802": ("Simulate1802", ["disasm/1802.cpp", "table/1802.cpp"], "C15/wf_1802.h", 140, "quick"),
    "6502": ("Simulate6502", ["disasm/6502.cpp", "table/6502.cpp"], "C15/wf_6502.h", 140, "quick"),
    "tms1000": ("SimulateTms1000", ["disasm/tms1000.cpp", "table/tms1000.cpp"], "C15/wf_tms1000.h", 140, "quick"),
    "f100_l": ("SimulateF100L", ["disasm/f100_l.cpp"], None, 140, "quick"),
    "ebpf": ("SimulateEbpf", [], None, 140, "quick"),
}
ADDR_MAX = {"6502": "0xffffu", "1802": "0xffffu", "tms9900": "0xffffu", "8008": "0xffffu", "lc3": "0x1ffffu"}
GROUPS = []
for cpu, (cls, incs, wf, unw, tier) in SIMS.items():
    defs = ["SIMFILE=simulate/%s.cpp" % cpu, "SIMCLASS=%s" % cls] + ["INC%d=%s" % (i + 1, x) for i, x in enumerate(incs)]
    if wf:
        defs.append("WF_HEADER=%s" % wf)
    if cpu in ADDR_MAX:
        defs.append("ADDR_MAX=%s" % ADDR_MAX[cpu])
    GROUPS.append(Group(name="C15/step_%s" % cpu, unity="C15/u_sim.cpp", entry="h_sim", c_sources=["common/st_fmt.c"],
                        functions=[("%s::run (single step) and its callees" % cls, "simulate/%s.cpp" % cpu, "harness; arbitrary object state under wf(), lazy memory")],
                        defines=defs, unwind=unw, checks=CH, timeout=900, tier=tier))
    if cpu in ("6502", "8008", "1802"):
        GROUPS.append(Group(name="C15/step_%s.pc_at_top" % cpu, unity="C15/u_sim.cpp", entry="h_sim", c_sources=["common/st_fmt.c"],
                            functions=[("%s::run (single step) and its callees" % cls, "simulate/%s.cpp" % cpu, "harness; program counter within 16 bytes of the top of the address space")],
                            defines=defs + ["PC_AT_TOP"], unwind=unw, checks=CH, timeout=900, tier=tier))
for w in (8, 16, 24):
    GROUPS.append(Group(name="C15/stm8.indexed_operand_%d" % w, unity="C15/u_stm8_ops.cpp", entry="h_stm8_ops", c_sources=["common/st_fmt.c"],
                        functions=[("SimulateStm8::execute_op_offset%d_index_x / _y" % w, "simulate/stm8.cpp", "harness; arbitrary object state, lazy memory")] + ([("SimulateStm8::execute_op_common", "simulate/stm8.cpp", "real callee")] if w != 24 else []),
                        defines=["WIDTH=%d" % w], unwind=40, checks=CH, timeout=900))
LEVEL = "proof"
TRUSTED = ["Memory replaced by the lazy-memory contract (byte map with symbolic initial contents)",
           "rewrite T5 (no dynamic dispatch): sound because the only object has a statically known most-derived type"]
MANIFEST = {
    "text": "Per-simulator single-step safety contract from an arbitrary object state (under the simulator's representation invariant, which the step must re-establish) and arbitrary memory: returns control, all accesses in bounds, bounded memory footprint.",
    "note": "Claimed for the simulators listed in evidence; the others are not decided. Display loops are unreachable with show == false.",
    "technique": "CBMC contract harness generated per simulator (havocked object + representation invariant + lazy-memory contract)",
}
