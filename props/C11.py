"""C11 - every symbol reference resolves to the definition the scoping rules select (DESIGN 4, C11)."""
from vlib import Group

S = "core/Symbols.cpp"
F = [("Symbols::find", S, "harness, bounded"), ("Symbols::append", S, "harness, bounded"), ("Symbols::set", S, "harness, bounded"), ("Symbols::lookup", S, "harness, bounded"),
     ("Symbols::export_symbol", S, "harness, bounded"), ("Symbols::iterate", S, "harness, bounded"), ("Symbols::count/export_count", S, "harness, bounded"),
     ("Symbols::scope_start/scope_end/lock", S, "harness, bounded"), ("memory_pool_add", "core/MemoryPool.cpp", "harness, bounded")]
CH = ["--bounds-check", "--pointer-check"]
B = "at most 3 records, names of 1..2 characters over {a,b}, addresses symbolic; pool size %s"
GROUPS = [
    Group(name="C11/append_lookup_iterate.pool20[bounded]", unity="C11/u_sym.cpp", entry="h_sym", functions=F, defines=["SCN=1", "POOL=20"], unwind=8, checks=CH, timeout=3000, mem_gb=28, tier="thorough",
          bounded=B % "re-#defined to 20 bytes so that the second record is placed in a second pool"),
    Group(name="C11/scope_shadowing.pool20[bounded]", unity="C11/u_sym.cpp", entry="h_sym", functions=F, defines=["SCN=2", "POOL=20"], unwind=8, checks=CH, timeout=2400, mem_gb=19, bounded=B % "re-#defined to 20 bytes (one record per pool); names of one character"),
    Group(name="C11/scope_isolation.pool20[bounded]", unity="C11/u_sym.cpp", entry="h_sym", functions=F, defines=["SCN=4", "POOL=20"], unwind=8, checks=CH, timeout=3000, mem_gb=28, tier="thorough", bounded=B % "re-#defined to 20 bytes (one record per pool); names of one character"),
    Group(name="C11/set_source_order.pool20[bounded]", unity="C11/u_sym.cpp", entry="h_sym", functions=F, defines=["SCN=3", "POOL=20"], unwind=8, checks=CH, timeout=2400, mem_gb=19, bounded=B % "re-#defined to 20 bytes (one record per pool); names of one character"),
    Group(name="C11/set_vs_label_lock.pool20[bounded]", unity="C11/u_sym.cpp", entry="h_sym", functions=F, defines=["SCN=5", "POOL=20"], unwind=8, checks=CH, timeout=2400, mem_gb=19, bounded=B % "re-#defined to 20 bytes (one record per pool); names of one character"),
]
for _n in (254, 255):
    GROUPS.append(Group(name="C11/long_name.%d[bounded]" % _n, unity="C11/u_sym.cpp", entry="h_sym", functions=F, defines=["SCN=6", "NAMELEN=%d" % _n, "POOL=600"], unwind=270, checks=CH, timeout=900,
                        bounded="one name of exactly %d characters followed by a one-character name; pool size re-#defined to 600 bytes" % _n))
LEVEL = "other"
TRUSTED = ["malloc succeeds"]
EXPLANATION = ("Bounded model checking of the real Symbols/MemoryPool code with CBMC (complete unwinding for the stated bounds): the symbol pools are linked lists of "
               "variable-length records, for which CBMC has no unbounded list predicate, so no unbounded contract proof is claimed; each scenario compares every "
               "operation's result with an abstract view (definition list + scoping rule).")
MANIFEST = {
    "text": "Bounded stand-in (not a proof): scenarios over at most 3 symbols with symbolic names/addresses compare append/lookup/set/export/iterate/scope operations of the real Symbols class with the scoping rule; a second pool is forced by shrinking the pool size.",
    "note": "ELF export and pass-1/pass-2 scope numbering are not covered; bounds in evidence.bounded_checks.",
    "technique": "bounded model checking (CBMC, complete unwinding) of core/Symbols.cpp against an abstract view - labelled bounded, not proved",
}
