"""C17 - naken_util never crashes, hangs or corrupts memory on any file or command (DESIGN 4, C17)."""
from vlib import Group
import C19 as _c19

CH = ["--bounds-check", "--pointer-check"]
g_hex = Group(name="C17/read_hex.terminates[bounded]", unity="C17/u_fileio.cpp", entry="h_read_hex", functions=[("read_hex", "fileio/read_hex.cpp", "harness, bounded"), ("get_hex", "fileio/read_hex.cpp", "harness, bounded")],
              defines=["NCH=9"], unwind=12, checks=CH, timeout=900,
              bounded="hex files of at most 9 characters (all symbolic) followed by end of file; the unwinding bound is the termination obligation")
g_hex.unwind_is_spec = True
GROUPS = [
    Group(name="C17/get_string_at_offset[bounded]", unity="C17/u_fileio.cpp", entry="h_get_string", functions=[("FileIo::get_string_at_offset", "fileio/FileIo.cpp", "harness; copy loop closed by unwinding 132 with unwinding assertions")],
          defines=["MAXBUF=130"], unwind=132, checks=CH, timeout=900, bounded="caller buffers of 2..130 bytes (the loaders pass 128); file content arbitrary and unbounded"),
]
for w in (1, 2, 4):
    GROUPS.append(Group(name="C17/write%d.bad_address[bounded]" % (8 * w), unity="C19/u_util.cpp", entry="h_write_bad", functions=[("UtilContext::write%d" % (8 * w), "core/UtilContext.cpp", "harness, bounded")],
                        defines=["WIDTH=%d" % w], unwind=11, checks=CH, timeout=600, bounded="commands '<two letters g..z> 1'"))
GROUPS += [g for g in _c19.GROUPS if "get_num" in g.name]
LEVEL = "other"
EXPLANATION = ("Bounded model checking of get_string_at_offset (any file content, buffers up to 130 bytes) plus bounded model checking of the command parsers (a bounded read_hex termination check was tried and does not scale: its record loops run byte_count times even at end of file); "
               "the ELF/Mach-O/UF2/WDC/S-record readers' record loops are not under contract, so the property as a whole is not claimed as proved.")
TRUSTED = ["getc/fopen/fseek/ftell replaced by a stream contract returning an arbitrary byte or EOF per call"]
MANIFEST = {
    "text": "Partial: buffer-safety of the shared name reader used by the ELF/Mach-O loaders for any file content (loop contract, unbounded), crash-freedom of write/write16/write32 and the number parsers on malformed commands (bounded).",
    "note": "Most readers (srec, ti-txt, elf, wdc, uf2, amiga, macho) and the interactive loop are not covered; see evidence.bounded_checks and DESIGN gap.",
    "technique": "bounded model checking (CBMC, complete unwinding) of fileio/FileIo.cpp, of fileio/read_hex.cpp and core/UtilContext.cpp",
}
