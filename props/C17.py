"""C17 - naken_util never crashes, hangs or corrupts memory on any file or command (DESIGN 4, C17)."""
from vlib import Group
import C19 as _c19

CH = ["--bounds-check", "--pointer-check"]
GROUPS = [
    Group(name="C17/get_string_at_offset[bounded]", unity="C17/u_fileio.cpp", entry="h_get_string", functions=[("FileIo::get_string_at_offset", "fileio/FileIo.cpp", "harness; copy loop closed by unwinding 132 with unwinding assertions")],
          defines=["MAXBUF=130"], unwind=132, checks=CH, timeout=900, bounded="caller buffers of 2..130 bytes (the loaders pass 128); file content arbitrary and unbounded"),
]
RD = [(1, "read_bin", "rbin", 1, []), (2, "read_ti_txt", "rti", 2, []), (3, "read_wdc", "rwdc", 2, [("read_int24", "fileio/read_wdc.cpp", "real callee")]),
      (4, "read_hex", "rhex", 6, [("get_hex", "fileio/read_hex.cpp", "loop-contract")]), (5, "read_srec", "rsrec", 5, [("get_hex", "fileio/read_srec.cpp", "loop-contract"), ("ignore_line", "fileio/read_srec.cpp", "loop-contract")]),
      (6, "read_uf2", "ruf2", 2, [("read_block", "fileio/read_uf2.cpp", "real callee"), ("FileIo::get_int32_le", "fileio/FileIo.cpp", "real callee")]),
      (7, "read_elf", "relf", 4, [("read_shdr_32", "fileio/read_elf.cpp", "real callee"), ("read_shdr_64", "fileio/read_elf.cpp", "real callee"), ("FileIo::get_string_at_offset", "fileio/FileIo.cpp", "replaced by its contract at the call sites (body discharged by C17/get_string_at_offset[bounded])")]),
      (8, "read_amiga", "ramiga", 4, [("read_hunk_header", "fileio/read_amiga.cpp", "loop-contracts"), ("read_code", "fileio/read_amiga.cpp", "loop-contract"), ("read_int32", "fileio/read_amiga.cpp", "real callee")]),
      (9, "read_macho", "rmacho", 4, [("macho_read_section", "fileio/read_macho.cpp", "real callee"), ("macho_read_segment_load", "fileio/read_macho.cpp", "real callee"), ("macho_read_symbol", "fileio/read_macho.cpp", "real callee"), ("FileIo::get_string_at_offset", "fileio/FileIo.cpp", "replaced by its contract at the call sites")])]

for num, fn, js, nl, extra in RD:
    GROUPS.append(Group(name="C17/%s" % fn, unity="C17/u_readers.cpp", entry="h_reader", functions=[(fn, "fileio/%s.cpp" % fn, "harness+%d loop-contracts, unbounded file" % nl)] + extra,
                        defines=["READER=%d" % num], loops="C17/%s.loops.json" % js, expected_loops=nl, unwind=14, checks=CH, timeout=1500))
for w in (1, 2, 4):
    GROUPS.append(Group(name="C17/write%d.bad_address[bounded]" % (8 * w), unity="C19/u_util.cpp", entry="h_write_bad", functions=[("UtilContext::write%d" % (8 * w), "core/UtilContext.cpp", "harness, bounded")],
                        defines=["WIDTH=%d" % w], unwind=11, checks=CH, timeout=600, bounded="commands '<two letters g..z> 1'"))
for w, unw in ((8, 132), (16, 68), (32, 36)):
    g_ = Group(name="C17/print%d[bounded]" % w, unity="C17/u_print.cpp", entry="h_print", functions=[("UtilContext::print%d" % w, "core/UtilContext.cpp", "harness (function text extracted verbatim), bounded")],
               defines=["PRINTFN=print%d" % w, 'VERIF_PRINT_INC="gen/UtilContext_print%d.inc"' % w, "RANGE=40"], unwind=unw, checks=CH, timeout=900,
               bounded="address ranges of at most 40 bytes (or the default 128 bytes) anywhere in the 32-bit space, any memory content; the unwinding bound is the termination obligation")
    g_.unwind_is_spec = True
    GROUPS.append(g_)
GROUPS += [g for g in _c19.GROUPS if "get_num" in g.name]
LEVEL = "proof"
EXPLANATION = ("DFCC loop contracts on all nine object-file readers (read_bin, read_ti_txt, read_wdc, read_hex, read_srec, read_uf2, read_elf, read_macho, read_amiga) over an arbitrary file of any length: "
               "every loop has a discharged variant (a counter bounded by a value from the file, the stream measure that only decreases while input is consumed, or - for the hunk reader, which seeks - "
               "the distance of the read position from the end of the file), every generated bounds/pointer obligation holds, and a second pass shows every loop body reachable under its contract; "
               "plus bounded model checking of print8/16/32 (unwinding bound = termination obligation), of get_string_at_offset and of the command parsers. "
               "The interactive command loop of main/naken_util.cpp is not under contract, so the property is proved for these functions only.")
TRUSTED = ["getc/fopen/fseek/ftell/fread replaced by a stream contract returning an arbitrary byte or EOF per call (EOF sticky, files shorter than 2^28 characters; file lengths reported by ftell below 2 GiB - 512); the hunk reader uses a position-aware file contract (seek/tell/eof indicator)", "FileIo::get_string_at_offset is replaced by its contract at the ELF/Mach-O call sites (its body is discharged, bounded, by C17/get_string_at_offset); strcmp/strncmp on section names return an arbitrary but repeatable result",
           "Memory::write8/clear are contracts in the reader harnesses (the page walk is under contract in C05)"]
MANIFEST = {
    "text": "Unbounded termination and memory-safety contracts (DFCC loop contracts with variants) for all nine object-file readers (hex, srec, ti-txt, wdc, uf2, raw binary, elf, mach-o, amiga hunk) on any file content; termination of print8/16/32 and of the write commands (bounded ranges / strings); buffer-safety of the shared name reader used by the ELF/Mach-O loaders and crash-freedom of write/write16/write32 and the number parsers on malformed commands (bounded).",
    "note": "The interactive loop and the option parsing of main/naken_util.cpp are covered only by the bounded C19 main() group (thorough tier); loops counting to a 32-bit header field are proved terminating, not fast; see evidence.bounded_checks and DESIGN gap.",
    "technique": "CBMC DFCC loop contracts (invariants + decreases) on fileio/read_hex.cpp, read_srec.cpp, read_ti_txt.cpp, read_wdc.cpp, read_uf2.cpp, read_bin.cpp, read_elf.cpp, read_macho.cpp, read_amiga.cpp; bounded model checking (complete unwinding) of fileio/FileIo.cpp and core/UtilContext.cpp",
}
