"""C01 - assembler/disassembler agreement; encodings equal the manuals (MSP430 core) (DESIGN 4, C01)."""
from vlib import Group

A = "asm/msp430.cpp"
F = [("parse_instruction_msp430", A, "harness (token script, symbolic registers/values/address)"), ("operand_to_cg", A, "harness"), ("add_bin16", "core/add_bin.cpp", "harness"),
     ("get_register_msp430", "disasm/msp430.cpp", "harness"), ("AsmContext::set_cpu + cpu_list[msp430]", "core/cpu_list.cpp", "real configuration"), ("table_msp430[]", "table/msp430.cpp", "data")]
CH = ["--bounds-check", "--pointer-check"]
ROWS = {"mov": 19, "add": 20, "addc": 21, "subc": 22, "sub": 23, "cmp": 24, "dadd": 25, "bit": 26, "bic": 27, "bis": 28, "xor": 29, "and": 30}
FORM = {"reg": 0, "imm": 1, "ind": 2, "indinc": 3, "abs": 4, "idx": 5, "sym": 6}
UNITY_EXTRA = ["core/cpu_list.cpp"]


def groups(prefix, twopass, ops=None):
    out = []
    for nm, row in ROWS.items():
        if ops is not None and nm not in ops:
            continue
        for sf in ("reg", "imm", "ind", "indinc", "abs", "idx", "sym"):
            for df in ("reg", "abs", "idx", "sym"):
                for bws, bwn in ((0, ""), (1, ".b"), (2, ".w")):
                    if twopass and sf in ("reg", "ind", "indinc") and df == "reg":
                        continue          # no expression operand: size cannot depend on the pass
                    quick = (nm == "mov" and bws == 0 and (df == "reg" or sf == "reg")) or (nm in ("add", "cmp") and sf == "imm" and df == "reg" and bws < 2) or (nm == "mov" and sf == "imm" and df == "reg")
                    if twopass:
                        quick = (nm == "mov" and bws == 0 and sf in ("imm", "idx", "sym", "abs") and df == "reg") or (nm == "add" and sf == "imm" and df == "reg" and bws == 1)
                    defs = ["ROW=%d" % row, "SRCFORM=%d" % FORM[sf], "DSTFORM=%d" % FORM[df], "BWSEL=%d" % bws] + (["TWOPASS"] if twopass else [])
                    out.append(Group(name="%s/msp430.%s%s.%s.%s" % (prefix, nm, bwn, sf, df), unity="C01/u_asm430.cpp", entry="h_asm", functions=F,
                                     defines=defs, cpp_sources=["core/cpu_list.cpp", "disasm/msp430.cpp"], unwind=90, checks=CH, timeout=600, tier="quick" if quick else "thorough"))
    return out


JROWS = {"jne": 7, "jnz": 8, "jeq": 9, "jz": 10, "jlo": 11, "jnc": 12, "jhs": 13, "jc": 14, "jn": 15, "jge": 16, "jl": 17, "jmp": 18}


def jump_groups(prefix):
    return [Group(name="%s/msp430.%s.target" % (prefix, nm), unity="C01/u_asm430.cpp", entry="h_asm", functions=F,
                  defines=["ROW=%d" % row, "SRCFORM=6", "DSTFORM=7", "BWSEL=0", "JUMP"], cpp_sources=["core/cpu_list.cpp", "disasm/msp430.cpp"],
                  unwind=90, checks=CH, timeout=600, tier="quick" if nm in ("jmp", "jne", "jge") else "thorough") for nm, row in JROWS.items()]


GROUPS = groups("C01", False, ("mov", "add", "addc", "sub", "cmp", "bit", "xor", "and")) + jump_groups("C01")
GROUPS.append(Group(name="C01/msp430.disasm.symbolic_operands", unity="C01/u_dis430_sym.cpp", entry="h_dis430_sym",
                    functions=[("get_source_reg, get_dest_reg", "disasm/msp430.cpp", "extracted verbatim; loop-free, all addresses below 64 KiB, all memory contents")],
                    checks=CH, timeout=600))
GROUPS.append(Group(name="C01/riscv.branch_jal_immediates", unity="C01/u_riscv_imm.cpp", entry="h_riscv_imm",
                    functions=[("permutate_branch, permutate_jal (encoder)", "asm/riscv.cpp", "extracted verbatim; loop-free, full domain"), ("permutate_branch, permutate_jal (decoder)", "disasm/riscv.cpp", "extracted verbatim; loop-free, full domain")],
                    checks=CH, timeout=600))
_RVF = [(1, "lb", 0), (1, "lh", 1), (1, "lw", 2), (1, "lbu", 4), (1, "lhu", 5), (2, "sb", 0), (2, "sh", 1), (2, "sw", 2),
        (3, "addi", 0), (3, "slti", 2), (3, "sltiu", 3), (3, "xori", 4), (3, "ori", 6), (3, "andi", 7),
        (4, "beq", 0), (4, "bne", 1), (4, "blt", 4), (4, "bge", 5), (4, "bltu", 6), (4, "bgeu", 7), (5, "jal", 0),
        (6, "add", 0, 0), (6, "sub", 0, 0x20), (6, "sll", 1, 0), (6, "slt", 2, 0), (6, "sltu", 3, 0), (6, "xor", 4, 0), (6, "srl", 5, 0), (6, "sra", 5, 0x20), (6, "or", 6, 0), (6, "and", 7, 0),
        (7, "slli", 1, 0), (7, "srli", 5, 0), (7, "srai", 5, 0x20)]
def rv_groups():
    return [Group(name="C01/riscv.%s" % m, unity="C01/u_riscv_forms.cpp", entry="h_riscv_form",
                  functions=[("parse_instruction_riscv", "asm/riscv.cpp", "harness (token-script contract), form %d" % f), ("get_operands", "asm/riscv.cpp", "real callee"), ("table_riscv[]", "table/riscv.cpp", "data; scan closed by unwinding 320")],
                  defines=["FORM=%d" % r[0], "MNEM=%s" % r[1], "F3=%d" % r[2]] + (["F7=%d" % r[3]] if len(r) > 3 else []), unwind=320, checks=CH, timeout=900, tier="quick") for r in _RVF for f, m in [(r[0], r[1])]]
GROUPS += rv_groups()
# known finding, confined to its input class: I-type ALU immediates 2048..4095 are accepted and encoded as N - 4096
GROUPS += [Group(name="C01/riscv.%s.uimm12" % m, unity="C01/u_riscv_forms.cpp", entry="h_riscv_form",
                 functions=[("parse_instruction_riscv", "asm/riscv.cpp", "harness (token-script contract), form 3, immediates 2048..4095 only")],
                 defines=["FORM=3", "MNEM=%s" % m, "F3=%d" % f3, "UIMM12_ONLY"], unwind=320, checks=CH, timeout=900, tier="quick") for f, m, f3 in [x for x in _RVF if len(x) == 3] if f == 3]
# decoder side of the round trip for AVR8: instruction lengths per the manual (obligation of the C08 disassembler contract)
import C08 as _c08
GROUPS += [g for g in _c08.GROUPS if g.name == "C08/disasm_avr8"]
LEVEL = "proof"
TRUSTED = ["the expected words in contracts/C01/u_riscv_forms.cpp are a hand transcription of the RV32I base instruction formats and the instruction listing of the RISC-V manual", "spec_enc_b/spec_dec_b/spec_enc_j/spec_dec_j in contracts/C01/u_riscv_imm.cpp are a hand transcription of the B-type and J-type immediate layouts of the RISC-V manual",
           "spec_two()/spec_src() in contracts/C01/u_asm430.cpp are a hand transcription of SLAU144 sections 3.3-3.4",
           "tokens_get/tokens_push/eval_expression/ignore_operand replaced by the token-script contract (token kinds concrete per form, values symbolic)",
           "Memory replaced by a write log plus the pass-1 flag byte"]
MANIFEST = {
    "text": "Per instruction form (mnemonic x source mode x destination mode x size suffix) the real MSP430 encoder is compared with the manual's encoding for all register numbers, all 32-bit operand values and all even load addresses; the disassembler length contract (C08) composes to 'decodes exactly the emitted bytes'.",
    "note": "Claimed for the MSP430 core double-operand instructions; for RV32I the loads, stores, I-type ALU instructions, branches and jal (34 forms: all registers, all 32-bit operand values, all word-aligned addresses) and the B-type/J-type immediate encoder/decoder pair are under contract; the text round trip, MSP430X and the other CPUs are not decided (DESIGN 4, C01 gap).",
    "technique": "CBMC contract harness (token-script contract, spec functions from SLAU144 and the RISC-V manual) on asm/msp430.cpp + core/add_bin.cpp + the real cpu_list row, asm/riscv.cpp + table/riscv.cpp, and the immediate encoders/decoders of asm/riscv.cpp and disasm/riscv.cpp",
}
