"""C01 - assembler/disassembler agreement; encodings equal the manuals (MSP430 core) (DESIGN 4, C01)."""
from vlib import Group

A = "asm/msp430.cpp"
F = [("parse_instruction_msp430", A, "harness (token script, symbolic registers/values/address)"), ("operand_to_cg", A, "harness"), ("add_bin16", "core/add_bin.cpp", "harness"),
     ("get_register_msp430", "disasm/msp430.cpp", "harness"), ("AsmContext::set_cpu + cpu_list[msp430]", "core/cpu_list.cpp", "real configuration"), ("table_msp430[]", "table/msp430.cpp", "data")]
CH = ["--bounds-check", "--pointer-check"]
ROWS = {"mov": 19, "add": 20, "addc": 21, "subc": 22, "sub": 23, "cmp": 24, "dadd": 25, "bit": 26, "bic": 27, "bis": 28, "xor": 29, "and": 30}
FORM = {"reg": 0, "imm": 1, "ind": 2, "indinc": 3, "abs": 4, "idx": 5, "sym": 6}
UNITY_EXTRA = ["core/cpu_list.cpp"]


def groups(prefix, twopass, ops=None):
    out = []
    for nm, row in ROWS.items():
        if ops is not None and nm not in ops:
            continue
        for sf in ("reg", "imm", "ind", "indinc", "abs", "idx", "sym"):
            for df in ("reg", "abs", "idx", "sym"):
                for bws, bwn in ((0, ""), (1, ".b"), (2, ".w")):
                    if twopass and sf in ("reg", "ind", "indinc") and df == "reg":
                        continue          # no expression operand: size cannot depend on the pass
                    quick = (nm == "mov" and bws == 0 and (df == "reg" or sf == "reg")) or (nm in ("add", "cmp") and sf == "imm" and df == "reg" and bws < 2) or (nm == "mov" and sf == "imm" and df == "reg")
                    if twopass:
                        quick = (nm == "mov" and bws == 0 and sf in ("imm", "idx", "sym", "abs") and df == "reg") or (nm == "add" and sf == "imm" and df == "reg" and bws == 1)
                    defs = ["ROW=%d" % row, "SRCFORM=%d" % FORM[sf], "DSTFORM=%d" % FORM[df], "BWSEL=%d" % bws] + (["TWOPASS"] if twopass else [])
                    out.append(Group(name="%s/msp430.%s%s.%s.%s" % (prefix, nm, bwn, sf, df), unity="C01/u_asm430.cpp", entry="h_asm", functions=F,
                                     defines=defs, cpp_sources=["core/cpu_list.cpp", "disasm/msp430.cpp"], unwind=90, checks=CH, timeout=600, tier="quick" if quick else "thorough"))
    return out


JROWS = {"jne": 7, "jnz": 8, "jeq": 9, "jz": 10, "jlo": 11, "jnc": 12, "jhs": 13, "jc": 14, "jn": 15, "jge": 16, "jl": 17, "jmp": 18}


def jump_groups(prefix):
    return [Group(name="%s/msp430.%s.target" % (prefix, nm), unity="C01/u_asm430.cpp", entry="h_asm", functions=F,
                  defines=["ROW=%d" % row, "SRCFORM=6", "DSTFORM=7", "BWSEL=0", "JUMP"], cpp_sources=["core/cpu_list.cpp", "disasm/msp430.cpp"],
                  unwind=90, checks=CH, timeout=600, tier="quick" if nm in ("jmp", "jne", "jge") else "thorough") for nm, row in JROWS.items()]


GROUPS = groups("C01", False, ("mov", "add", "addc", "sub", "cmp", "bit", "xor", "and")) + jump_groups("C01")
GROUPS.append(Group(name="C01/riscv.branch_jal_immediates", unity="C01/u_riscv_imm.cpp", entry="h_riscv_imm",
                    functions=[("permutate_branch, permutate_jal (encoder)", "asm/riscv.cpp", "extracted verbatim; loop-free, full domain"), ("permutate_branch, permutate_jal (decoder)", "disasm/riscv.cpp", "extracted verbatim; loop-free, full domain")],
                    checks=CH, timeout=600))
LEVEL = "proof"
TRUSTED = ["spec_enc_b/spec_dec_b/spec_enc_j/spec_dec_j in contracts/C01/u_riscv_imm.cpp are a hand transcription of the B-type and J-type immediate layouts of the RISC-V manual",
           "spec_two()/spec_src() in contracts/C01/u_asm430.cpp are a hand transcription of SLAU144 sections 3.3-3.4",
           "tokens_get/tokens_push/eval_expression/ignore_operand replaced by the token-script contract (token kinds concrete per form, values symbolic)",
           "Memory replaced by a write log plus the pass-1 flag byte"]
MANIFEST = {
    "text": "Per instruction form (mnemonic x source mode x destination mode x size suffix) the real MSP430 encoder is compared with the manual's encoding for all register numbers, all 32-bit operand values and all even load addresses; the disassembler length contract (C08) composes to 'decodes exactly the emitted bytes'.",
    "note": "Claimed for the MSP430 core double-operand instructions; for RV32I only the B-type/J-type immediate encoder/decoder pair (all offsets, all instruction words, encode-decode fixpoint) is under contract; the text round trip, MSP430X and the other CPUs are not decided (DESIGN 4, C01 gap).",
    "technique": "CBMC contract harness (token-script contract, spec function from SLAU144) on asm/msp430.cpp + core/add_bin.cpp + the real cpu_list row",
}
