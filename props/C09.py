"""C09 - macros, defines, equ, repeat and include are transparent text abstractions (DESIGN 4, C09)."""
from vlib import Group

M = "core/Macros.cpp"
CH = ["--bounds-check", "--pointer-check"]
GROUPS = [
    Group(name="C09/macros_expand_params.substitution[bounded]", unity="C16/u_macros.cpp", entry="h_expand_script", functions=[("macros_expand_params", M, "harness, bounded")],
          defines=["SCRIPTED"], unwind=14, checks=CH, timeout=2400, tier="thorough",
          bounded="two arguments of 3 and 1 arbitrary ordinary characters (blanks allowed inside), body '<p1>+<p2>'"),
    Group(name="C09/get_param_index[bounded]", unity="C09/u_param.cpp", entry="h_param_index", functions=[("get_param_index", M, "harness, bounded")],
          unwind=8, checks=CH, timeout=600, bounded="parameter lists of two names of 1..2 characters over {a,b}, looked-up name of 1..2 characters"),
]
GROUPS.append(Group(name="C09/parse_repeat", unity="C09/u_repeat.cpp", entry="h_repeat",
                    functions=[("parse_repeat", "core/directives.cpp", "harness+2 loop-contracts (function text extracted verbatim): any count, any body length"), ("AsmContext::assemble", "core/AsmContext.cpp", "contract: the body"), ("add_bin8", "core/add_bin.cpp", "contract (discharged by C05/add_bin8)")],
                    loops="C09/repeat.loops.json", expected_loops=2, unwind=14, checks=["--bounds-check", "--pointer-check"], timeout=900))
LEVEL = "proof"
EXPLANATION = ("Contract proof (two DFCC loop contracts, any count and any body length) that .repeat n emits exactly n - 1 further copies of its body, byte for byte, at consecutive addresses; "
               "bounded model checking that macro expansion is character-for-character substitution for bounded argument/body sizes and that parameter-name lookup is exact-match; "
               "the equivalence of a whole program with its hand-expanded form (.define, equ, .include, nested macros, labels) is a text-to-text property outside CBMC's reach (DESIGN 1, 4 C09), "
               "so the property is proved for .repeat only.")
TRUSTED = ["the character reader is replaced by a scripted stream contract", "the nested assemble() is the contract 'emits a body of LEN arbitrary bytes and reports .endr'; add_bin8 is its C05 contract"]
MANIFEST = {
    "text": ".repeat n emits n consecutive copies of its body (unbounded proof: any count, any body length); parameter substitution of macros_expand_params is exact textual replacement and get_param_index matches whole names only, for bounded argument and name lengths.",
    "note": ".define/equ/.include transparency and nesting are not decided (see DESIGN 4 C09 gap); the macro groups are bounded stand-ins.",
    "technique": "CBMC DFCC loop contracts on parse_repeat (core/directives.cpp, extracted verbatim); bounded model checking (complete unwinding) of core/Macros.cpp",
}
