"""C09 - macros, defines, equ, repeat and include are transparent text abstractions (DESIGN 4, C09)."""
from vlib import Group

M = "core/Macros.cpp"
CH = ["--bounds-check", "--pointer-check"]
GROUPS = [
    Group(name="C09/macros_expand_params.substitution[bounded]", unity="C16/u_macros.cpp", entry="h_expand_script", functions=[("macros_expand_params", M, "harness, bounded")],
          defines=["SCRIPTED"], unwind=14, checks=CH, timeout=2400, tier="thorough",
          bounded="two arguments of 3 and 1 arbitrary ordinary characters (blanks allowed inside), body '<p1>+<p2>'"),
    Group(name="C09/get_param_index[bounded]", unity="C09/u_param.cpp", entry="h_param_index", functions=[("get_param_index", M, "harness, bounded")],
          unwind=8, checks=CH, timeout=600, bounded="parameter lists of two names of 1..2 characters over {a,b}, looked-up name of 1..2 characters"),
]
LEVEL = "other"
EXPLANATION = ("Partial and bounded: macro expansion is checked to be character-for-character substitution for bounded argument/body sizes, and parameter-name lookup to be exact-match; "
               "the equivalence of a whole program with its hand-expanded form (.define, equ, .include, nested macros, labels) is a text-to-text property outside CBMC's reach (DESIGN 1, 4 C09).")
TRUSTED = ["the character reader is replaced by a scripted stream contract"]
MANIFEST = {
    "text": "Partial, bounded: parameter substitution of macros_expand_params is exact textual replacement and get_param_index matches whole names only, for bounded argument and name lengths.",
    "note": ".define/equ/.include transparency, nesting and .repeat copies are not decided (see DESIGN 4 C09 gap).",
    "technique": "bounded model checking (CBMC, complete unwinding) of core/Macros.cpp - labelled bounded, not proved",
}
