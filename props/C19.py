"""C19 - naken_util memory commands address the same bytes as loader and simulator (DESIGN 4, C19)."""
from vlib import Group
import C05 as _c05

U = "core/UtilContext.cpp"
CH = ["--bounds-check", "--pointer-check"]
GROUPS = [
    Group(name="C19/get_num[bounded]", unity="C19/u_util.cpp", entry="h_get_num", functions=[("UtilContext::get_num", U, "harness, bounded"), ("UtilContext::get_hex", U, "harness, bounded")],
          defines=["SLEN=8"], unwind=11, checks=CH, timeout=900, bounded="command strings of at most 8 characters, all characters symbolic"),
    Group(name="C19/write8[bounded]", unity="C19/u_util.cpp", entry="h_write", functions=[("UtilContext::write8", U, "harness, bounded"), ("UtilContext::get_address", U, "harness, bounded")],
          defines=["WIDTH=1"], unwind=11, checks=CH, timeout=900, bounded="command 'dd d dd' with symbolic decimal digits; bytes_per_address in {1,2,4}"),
    Group(name="C19/write16[bounded]", unity="C19/u_util.cpp", entry="h_write", functions=[("UtilContext::write16", U, "harness, bounded")],
          defines=["WIDTH=2"], unwind=11, checks=CH, timeout=900, bounded="command 'dd d dd' with symbolic decimal digits; both byte orders"),
]
GROUPS += [g for g in _c05.GROUPS if "Memory.write16" in g.name or "Memory.write1[" in g.name or "MemoryPage" in g.name]
_CMD = {1: "-set_pc 0x1234", 2: "-set_pc 0x1234 a.hex", 3: "a.hex -set_pc 77", 4: "-msp430 -set_pc 0x1234", 5: "-address 0x1234 -bin a.hex", 6: "-break_io 77 -set_pc 0x1234 a.hex",
        11: "-disasm_range", 12: "a.hex -disasm_range", 13: "-set_pc", 14: "a.hex -address", 15: "-break_io", 16: "a.hex -sim_serial 1"}
for scn, cmd in _CMD.items():
    GROUPS.append(Group(name="C19/naken_util.main.cmdline%d[bounded]" % scn, unity="C19/u_utilmain.cpp", entry="h_utilmain",
                        functions=[("main", "main/naken_util.cpp", "harness, one concrete command line (T11 drops the unused #include <string>)"), ("String::*", "common/String.cpp", "real callee")],
                        defines=["VERIF_PURE_BODY=;", "SCN=%d" % scn], unwind=40, unwindset=["naken_util_main.1:2"], checks=CH, timeout=600,
                        bounded="the single command line `naken_util %s`, standard input at end of file; file_read, UtilContext and Simulate are contracts" % cmd))
_SESS = {21: ("readline_eof", "`registers`, end of input"), 22: ("session_print", "`print 0x10`, `quit`"), 23: ("session_unknown_command", "`bogus 1 2`, `exit`"),
         24: ("session_write16", "`write16 0x20 1 2`, `quit`"), 25: ("session_missing_argument", "`print`, `quit`")}
for _scn, (_nm, _what) in _SESS.items():
    _g = Group(name="C19/naken_util.main.%s[bounded]" % _nm, unity="C19/u_utilmain.cpp", entry="h_utilmain",
               functions=[("main", "main/naken_util.cpp", "harness, the shipped -DREADLINE configuration; readline/history replaced by a contract header (contracts/C19/shadow)"), ("String::*", "common/String.cpp", "real callee")],
               defines=["VERIF_PURE_BODY=;", "SCN=%d" % _scn, "READLINE"], includes=["C19/shadow"], unwind=40, unwindset=["naken_util_main.1:4"], checks=CH, timeout=900,
               bounded="the session `naken_util a.hex` with the input lines %s (then end of input); the unwinding bound of the command loop (3 iterations) is the termination obligation" % _what)
    _g.unwind_is_spec = True
    GROUPS.append(_g)
LEVEL = "other"
EXPLANATION = ("Bounded model checking (CBMC, complete unwinding for the stated string lengths) of the real command parsers and write commands, plus the bounded Memory "
               "byte-map/16-bit round-trip checks shared with C05; strings are unbounded in the tool, so no unbounded proof is claimed.")
TRUSTED = ["Memory replaced by a write log in the command harnesses; its byte-map behaviour is the separate bounded Memory obligation"]
MANIFEST = {
    "text": "Bounded stand-in: number parsing (decimal, 0x, h) for every string of <= 8 characters never reads past the terminator and yields the positional value; write/write16 place the k-th value at address*bytes_per_address + k*width in the CPU's byte order; Memory 16-bit round trip on the real page list; main()'s command-line handling up to the first prompt (-set_pc survives the reset, no argv entry past argc is used) for 12 concrete command lines, and five interactive sessions of the shipped readline configuration (a command is dispatched once with its arguments, unknown or incomplete commands are rejected, `quit`/`exit` or end of input ends the session).",
    "note": "disasm ranges, set/run and the interactive command interpreter of main/naken_util.cpp are not covered; print8/16/32 termination and buffer safety are under C17.",
    "technique": "bounded model checking (CBMC, complete unwinding) of core/UtilContext.cpp parsers and write commands - labelled bounded, not proved",
}
