#!/usr/bin/env python3
"""Regenerate MANIFEST.json from props/*.py (claimed checks) and tools/manifest_meta.json."""
import importlib
import json
import os
import sys

HERE = os.path.dirname(os.path.dirname(os.path.abspath(__file__)))
sys.path.insert(0, os.path.join(HERE, "tools"))
sys.path.insert(0, os.path.join(HERE, "props"))

ALL = ["C%02d" % i for i in range(1, 21)]
meta = json.load(open(os.path.join(HERE, "tools", "manifest_meta.json")))
checks = []
na = []
for pid in ALL:
    path = os.path.join(HERE, "props", pid + ".py")
    if os.path.exists(path) and pid not in meta.get("force_na", {}):
        mod = importlib.import_module(pid)
        m = mod.MANIFEST
        checks.append({
            "property_id": pid,
            "quick_cmd": "./check %s --tier quick" % pid,
            "thorough_cmd": "./check %s --tier thorough" % pid,
            "evidence_file": "evidence/%s.json" % pid,
            "replay_cmd_template": "./check %s --replay {path}" % pid,
            "engine": "cbmc-contracts",
            "level_claimed": {"category": mod.LEVEL, "text": m["text"], "design_ref": m.get("design_ref", "DESIGN.md section 4, " + pid)},
            "level_note": m["note"],
            "technique": m["technique"],
        })
    else:
        reason = meta.get("force_na", {}).get(pid) or meta["not_built"].get(pid) or "designed (DESIGN.md section 4), check not built yet"
        na.append({"property_id": pid, "reason": reason})
man = {
    "version": 1,
    "setup_cmd": "./check --selfcheck-tools",
    "hooks": {
        "guard": "NAKEN_ASM_VERIF",
        "enable": "no hooks: the checks compile /repo's own sources with goto-cc from a scratch copy (tools/prep_tree.py); nothing in /repo is guarded",
        "baseline_off_cmd": "cd /repo && make -j8 && make tests",
        "source_commits": [],
        "add_only": True,
    },
    "engines": [{
        "name": "cbmc-contracts",
        "path": "tools/vlib.py",
        "serves_properties": [c["property_id"] for c in checks],
        "kind_free_text": "contract harnesses + DFCC loop contracts on /repo's real C++ sources, discharged by CBMC 6.11 (goto-cc, goto-instrument --dfcc, cbmc)",
    }],
    "checks": checks,
    "not_applicable": na,
    "notes": meta.get("notes", ""),
}
json.dump(man, open(os.path.join(HERE, "MANIFEST.json"), "w"), indent=1)
print("checks:", [c["property_id"] for c in checks], "n/a:", [n["property_id"] for n in na])
