#!/usr/bin/env python3
"""Copy /repo's sources to a scratch directory and apply the mechanical rewrites
T1-T9 of DESIGN.md section 2.1 that CBMC 6.11's C++ front end needs.

The verified text is the repository's own text; every rule is a purely
syntactic regular-expression rewrite.  The number of times each rule fired per
file is returned (and written to <dst>/TRANSFORMS.json) so that evidence can
report exactly what was changed.  Nothing is written to /repo.
"""
import json
import os
import re
import shutil
import sys

DIRS = ["asm", "core", "disasm", "fileio", "simulate", "table", "common", "main"]

# T9: free functions that need loop contracts / per-loop unwind bounds get C
# linkage so that their CBMC identifier carries no parameter list.
T9 = {
    "core/directives_data.cpp": ["parse_db", "parse_resb", "parse_align"],
    "core/directives_data.h": ["parse_db", "parse_resb"],
    "fileio/write_hex.cpp": ["write_hex_line", "write_hex"],
    "fileio/write_hex.h": ["write_hex"],
    "fileio/write_srec.cpp": ["write_srec_line", "write_srec"],
    "fileio/write_srec.h": ["write_srec"],
    "fileio/write_bin.cpp": ["write_bin"],
    "fileio/write_bin.h": ["write_bin"],
    "fileio/write_wdc.cpp": ["write_wdc", "write_int24"],
    "fileio/write_wdc.h": ["write_wdc", "write_int24"],
    "fileio/write_uf2.cpp": ["write_uf2"],
    "fileio/write_uf2.h": ["write_uf2"],
    "core/Macros.cpp": ["macros_expand_params"],
    "core/tokens.cpp": ["tokens_get", "tokens_unget_char"],
    "main/naken_asm.cpp": ["main", "output_hex_text"],
    "main/naken_util.cpp": ["main"],
    "core/tokens.h": ["tokens_get", "tokens_unget_char"],
    "fileio/read_hex.cpp": ["get_hex", "read_hex"],
    "fileio/read_hex.h": ["read_hex"],
    "fileio/read_srec.cpp": ["get_hex", "ignore_line", "read_srec"],
    "fileio/read_srec.h": ["read_srec"],
    "fileio/read_bin.cpp": ["read_bin"],
    "fileio/read_bin.h": ["read_bin"],
    "fileio/read_wdc.cpp": ["read_wdc", "read_int24"],
    "fileio/read_wdc.h": ["read_wdc", "read_int24"],
    "fileio/read_ti_txt.cpp": ["read_ti_txt"],
    "fileio/read_ti_txt.h": ["read_ti_txt"],
    "fileio/read_uf2.cpp": ["read_uf2", "read_block"],
    "fileio/read_uf2.h": ["read_uf2"],
    "fileio/read_elf.cpp": ["read_elf"],
    "disasm/tms9900.cpp": ["list_output_tms9900", "disasm_range_tms9900"],
    "disasm/msp430.cpp": ["list_output_msp430_both", "disasm_range_msp430_both"],
    "disasm/z80.cpp": ["list_output_z80", "disasm_range_z80"],
    "disasm/mips.cpp": ["disasm_range_mips"],
    "disasm/mips.h": ["disasm_range_mips"],
    "disasm/z80.h": ["list_output_z80", "disasm_range_z80"],
    "disasm/6800.cpp": ["list_output_6800", "disasm_range_6800"],
    "disasm/6800.h": ["list_output_6800", "disasm_range_6800"],
    "disasm/6809.cpp": ["list_output_6809", "disasm_range_6809"],
    "disasm/6809.h": ["list_output_6809", "disasm_range_6809"],
    "disasm/68hc08.cpp": ["list_output_68hc08", "disasm_range_68hc08"],
    "disasm/68hc08.h": ["list_output_68hc08", "disasm_range_68hc08"],
    "disasm/tms9900.h": ["list_output_tms9900", "disasm_range_tms9900"],
    "fileio/read_amiga.cpp": ["read_amiga", "read_hunk_header", "read_code", "read_int32"],
    "fileio/read_amiga.h": ["read_amiga"],
    "fileio/read_macho.cpp": ["read_macho"],
    "fileio/read_macho.h": ["read_macho"],
    "fileio/read_elf.h": ["read_elf"],
    "core/Macros.h": ["macros_expand_params"],
}

BOOL_BITFIELD = re.compile(r"^(\s*bool\s+\w+)\s*:\s*\d+\s*;", re.M)
INT_BITFIELD = re.compile(
    r"^(\s*(?:uint8_t|uint16_t|uint32_t|unsigned int|unsigned|int)\s+\w+)\s*:\s*\d+\s*;", re.M)
FLEX = re.compile(r"^(?!\s*(?:extern|static)\b)(\s*[A-Za-z_][\w ]*[\s\*]+\w+)\[\];", re.M)
TILDE = re.compile(r"\(~([A-Za-z_]\w*)\)")
# T10: the front end evaluates a C-style cast of an array lvalue to another pointer type
# ("(uint8_t *)token", token a char[]) to an invalid pointer; &(x)[0] is the same value for
# arrays and pointers alike.
T10 = re.compile(r"\((uint8_t|int8_t|char|unsigned char|const char|const uint8_t) \*\)([A-Za-z_]\w*)(?=\s*[;,)])")
T7_FILES = {"asm/mips.cpp", "asm/avr8.cpp", "asm/ps2_ee_vu.cpp", "disasm/super_fx.cpp"}
T7 = re.compile(r"\b([A-Za-z_]\w*) < ([^|&;(){}]+?) \|\| \1 > ")


def count_sub(pattern, repl, text):
    new, n = pattern.subn(repl, text)
    return new, n


def transform_var_h(text, fired):
    # T3a: anonymous-union member in the constructor init list
    old = "Var() : type { VAR_INT }, value_int { 0 }\n  {\n  }"
    new = "Var() : type { VAR_INT }\n  {\n    value_int = 0;\n  }"
    if old in text:
        text = text.replace(old, new)
        fired["T3a"] = fired.get("T3a", 0) + 1
    # T3b: member template get_data<TYPE>() -> monomorphic copies
    m = re.search(r"  template <typename TYPE>\n  TYPE get_data\(\)\n  \{\n(.*?)\n  \}\n", text, re.S)
    if m:
        body = m.group(1)
        copies = []
        for t in ["int32_t", "int64_t", "float", "double"]:
            b = body.replace("(TYPE)", "(%s)" % t)
            copies.append("  %s get_data__%s()\n  {\n%s\n  }\n" % (t, t, b))
        text = text[:m.start()] + "\n".join(copies) + text[m.end():]
        for t in ["int32_t", "int64_t", "float", "double"]:
            text = text.replace("get_data<%s>()" % t, "get_data__%s()" % t)
        fired["T3b"] = fired.get("T3b", 0) + 1
    return text


def transform_sim_header(text, fired):
    # T5: no dynamic dispatch; pure virtuals get an asserting body
    text, n1 = re.subn(r"\bvirtual\s+", "", text)
    # the body of a pure virtual is the macro VERIF_PURE_BODY: by default (tools/vlib.py) an asserting body; a harness that
    # supplies its own contract for the base-class methods defines it as ';' and defines the methods itself
    text, n2 = re.subn(r"\)\s*=\s*0\s*;", ') VERIF_PURE_BODY', text)
    if n1 or n2:
        fired["T5"] = fired.get("T5", 0) + n1 + n2
    return text


def transform_t9(text, names, fired):
    for name in names:
        # definition and prototypes: [static] <type> name(
        pat = re.compile(r"^(static\s+)?((?:[A-Za-z_][\w]*[\s\*]+)+)(%s)\s*\(" % re.escape(name), re.M)
        def rep(m):
            return 'extern "C" ' + m.group(2) + m.group(3) + "("
        text, n = pat.subn(rep, text)
        if n:
            fired["T9"] = fired.get("T9", 0) + n
    return text


def transform(rel, text):
    fired = {}
    if rel.endswith(".h") or rel.endswith(".cpp"):
        text, n = count_sub(BOOL_BITFIELD, r"\1;", text)
        if n:
            fired["T1"] = n
        if rel in ("core/cpu_list.h", "table/propeller2.h", "simulate/8008.h"):
            text, n = count_sub(INT_BITFIELD, r"\1;", text)
            if n:
                fired["T1i"] = n
    if rel.endswith(".h"):
        text, n = count_sub(FLEX, r"\1[0];", text)
        if n:
            fired["T2"] = n
    if rel == "core/Var.h":
        text = transform_var_h(text, fired)
    text, n = count_sub(TILDE, r"(~(\1))", text)
    if n:
        fired["T4"] = n
    text, n = count_sub(T10, r"(\1 *)&(\2)[0]", text)
    if n:
        fired["T10"] = n
    if rel.startswith("simulate/") and rel.endswith(".h"):
        text = transform_sim_header(text, fired)
    if rel in T7_FILES:
        text, n = T7.subn(lambda m: "(%s) < %s || (%s) > " % (m.group(1), m.group(2), m.group(1)), text)
        if n:
            fired["T7"] = n
    if rel == "core/UtilContext.cpp":
        if 'value = "";' in text:
            text = text.replace('value = "";', 'value.set("");')
            fired["T8"] = 1
    if rel in T9:
        text = transform_t9(text, T9[rel], fired)
    if rel == "main/naken_util.cpp":
        # T11: the file includes <string> (libstdc++, which the front end cannot parse) but uses nothing from it
        if "std::" in text:
            raise SystemExit("T11: main/naken_util.cpp now uses std:: - the <string> include can no longer be dropped")
        text, n = re.subn(r"^#include <string>\n", "", text, flags=re.M)
        if n:
            fired["T11"] = n
        # T8 (as in core/UtilContext.cpp): `s = <const char *>;` on a String makes the front end synthesise a default assignment
        # operator for a class with an array member and abort; String::operator=(const char *) is { set(text); }, so the call is
        # written out.  Must fire.
        text, n = re.subn(r"^(\s*)(command|arg) = (\"[a-z]*\"|temp|line|command\.value\(\) \+ space);", r"\1\2.set(\3);", text, flags=re.M)
        if n < 4:
            raise SystemExit("T8: expected String assignments in main/naken_util.cpp not found")
        fired["T8"] = fired.get("T8", 0) + n
    return text, fired


# Mechanical function extraction: the exact text of one function definition is copied (signature to
# matching closing brace) into src/gen/<name>.inc so that a harness can compile that function alone
# when the rest of its translation unit cannot share a TU with the harness.  Nothing is rewritten.
EXTRACT = [
    ("core/AsmContext.cpp", r"^void AsmContext::set_cpu\(int index\)\s*\{", "AsmContext_set_cpu.inc"),
    ("asm/mips.cpp", r"^int link_function_mips\(", "link_function_mips.inc"),
    ("disasm/tms9900.cpp", r"^(?:extern \"C\" )?void list_output_tms9900\(", "list_output_tms9900.inc"),
    ("disasm/msp430.cpp", r"^(?:extern \"C\" |static )?void list_output_msp430_both\(", "list_output_msp430_both.inc"),
    ("disasm/tms9900.cpp", r"^(?:extern \"C\" )?void disasm_range_tms9900\(", "disasm_range_tms9900.inc"),
    ("disasm/6800.cpp", r"^(?:extern \"C\" )?void list_output_6800\(", "list_output_6800.inc"),
    ("disasm/6809.cpp", r"^(?:extern \"C\" )?void list_output_6809\(", "list_output_6809.inc"),
    ("disasm/68hc08.cpp", r"^(?:extern \"C\" )?void list_output_68hc08\(", "list_output_68hc08.inc"),
    ("disasm/6800.cpp", r"^(?:extern \"C\" )?void disasm_range_6800\(", "disasm_range_6800.inc"),
    ("disasm/6809.cpp", r"^(?:extern \"C\" )?void disasm_range_6809\(", "disasm_range_6809.inc"),
    ("disasm/68hc08.cpp", r"^(?:extern \"C\" )?void disasm_range_68hc08\(", "disasm_range_68hc08.inc"),
    ("asm/riscv.cpp", r"^static uint32_t permutate_branch\(", "riscv_asm_permutate_branch.inc"),
    ("asm/riscv.cpp", r"^static uint32_t permutate_jal\(", "riscv_asm_permutate_jal.inc"),
    ("disasm/riscv.cpp", r"^static int32_t permutate_branch\(", "riscv_dis_permutate_branch.inc"),
    ("disasm/riscv.cpp", r"^static int32_t permutate_jal\(", "riscv_dis_permutate_jal.inc"),
    ("disasm/msp430.cpp", r"^(?:extern \"C\" |static )?void disasm_range_msp430_both\(", "disasm_range_msp430_both.inc"),
    ("disasm/z80.cpp", r"^(?:extern \"C\" )?void list_output_z80\(", "list_output_z80.inc"),
    ("disasm/z80.cpp", r"^(?:extern \"C\" )?void disasm_range_z80\(", "disasm_range_z80.inc"),
    ("disasm/mips.cpp", r"^(?:extern \"C\" )?void disasm_range_mips\(", "disasm_range_mips.inc"),
    ("disasm/msp430.cpp", r"^static int get_source_reg\(", "msp430_get_source_reg.inc"),
    ("disasm/msp430.cpp", r"^static int get_dest_reg\(", "msp430_get_dest_reg.inc"),
    ("disasm/pdp11.cpp", r"^static int pdp11_addressing_mode\(", "pdp11_addressing_mode.inc"),
    ("core/directives.cpp", r"^int parse_repeat\(", "parse_repeat.inc"),
    ("core/directives.cpp", r"^int parse_org\(", "parse_org.inc"),
    ("core/AsmContext.cpp", r"^int AsmContext::link\(\)", "AsmContext_link.inc"),
    ("core/Linker.cpp", r"^uint8_t \*Linker::get_code_from_symbol\(", "Linker_get_code_from_symbol.inc"),
    ("core/UtilContext.cpp", r"^void UtilContext::print8\(const char \*token\)", "UtilContext_print8.inc"),
    ("core/UtilContext.cpp", r"^void UtilContext::print16\(const char \*token\)", "UtilContext_print16.inc"),
    ("core/UtilContext.cpp", r"^void UtilContext::print32\(const char \*token\)", "UtilContext_print32.inc"),
]


def extract_function(text, sig_re):
    m = re.search(sig_re, text, re.M)
    if not m:
        return None
    i = text.index("{", m.start())
    depth = 0
    for j in range(i, len(text)):
        if text[j] == "{":
            depth += 1
        elif text[j] == "}":
            depth -= 1
            if depth == 0:
                return text[m.start():j + 1] + "\n"
    return None


def prep(repo, dst, t9_extra=None):
    if t9_extra:
        for k, v in t9_extra.items():
            T9.setdefault(k, [])
            for n in v:
                if n not in T9[k]:
                    T9[k].append(n)
    report = {}
    src_root = os.path.join(dst, "src")
    if os.path.exists(src_root):
        shutil.rmtree(src_root)
    for d in DIRS:
        for root, _dirs, files in os.walk(os.path.join(repo, d)):
            for f in files:
                if not (f.endswith(".cpp") or f.endswith(".h") or f.endswith(".c")):
                    continue
                p = os.path.join(root, f)
                rel = os.path.relpath(p, repo)
                with open(p, "r", errors="surrogateescape") as fh:
                    text = fh.read()
                new, fired = transform(rel, text)
                out = os.path.join(src_root, rel)
                os.makedirs(os.path.dirname(out), exist_ok=True)
                with open(out, "w", errors="surrogateescape") as fh:
                    fh.write(new)
                if fired:
                    report[rel] = fired
    gen = os.path.join(src_root, "gen")
    os.makedirs(gen, exist_ok=True)
    for rel, sig, out in EXTRACT:
        with open(os.path.join(src_root, rel), errors="surrogateescape") as fh:
            whole = fh.read()
        body = extract_function(whole, sig)
        if body is not None:
            # the file-level READ_RAM* accessor macros the function text uses are copied along (verbatim, guarded)
            macros = "".join("#ifndef %s\n%s\n#endif\n" % (m.group(1), m.group(0)) for m in re.finditer(r"^#define (READ_RAM\w*)\(a\)(?:.*\\\n)*.*$", whole, re.M))
            with open(os.path.join(gen, out), "w", errors="surrogateescape") as fh:
                fh.write("/* extracted verbatim from %s by tools/prep_tree.py */\n" % rel + macros + body)
            report.setdefault(rel, {})["X1"] = 1
    # encoders that use the pass-1 flag-byte protocol (C02/C13 lemma): source scan on every run
    protos = []
    adir = os.path.join(src_root, "asm")
    for f in sorted(os.listdir(adir)):
        if not f.endswith(".cpp"):
            continue
        with open(os.path.join(adir, f), errors="surrogateescape") as fh:
            t = fh.read()
        if re.search(r"memory_write\(\s*asm_context->address\s*,", t):
            protos += re.findall(r"^int (parse_instruction_\w+)\(", t, re.M)
    with open(os.path.join(gen, "protocol_encoders.inc"), "w") as fh:
        fh.write("/* generated by tools/prep_tree.py: encoders containing memory_write(asm_context->address, ...) */\n")
        for n in protos:
            fh.write("PROTO(%s)\n" % n)
    totals = {}
    for rel, fired in report.items():
        for k, v in fired.items():
            totals[k] = totals.get(k, 0) + v
    with open(os.path.join(dst, "TRANSFORMS.json"), "w") as fh:
        json.dump({"totals": totals, "files": report}, fh, indent=1, sort_keys=True)
    return totals, report


if __name__ == "__main__":
    repo = sys.argv[1] if len(sys.argv) > 1 else "/repo"
    dst = sys.argv[2] if len(sys.argv) > 2 else "/var/tmp/verif.tree"
    os.makedirs(dst, exist_ok=True)
    totals, _ = prep(repo, dst)
    print(json.dumps(totals, sort_keys=True))
