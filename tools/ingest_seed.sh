#!/bin/sh
# usage: tools/ingest_seed.sh <id>   copies /var/tmp/sw/<id>/seed_out to /verif/seeded/<id>, re-confirms it (demo exits 0 on /repo's build,
# non-zero on the changed build in the agent's worktree, test suite of the changed build passes) and writes meta.json
id=$1; wt=/var/tmp/sw/$id; out=/verif/seeded/$id
[ -f $wt/seed_out/patch.diff ] || { echo "$id: no patch"; exit 1; }
mkdir -p $out; cp -r $wt/seed_out/* $out/
( cd $wt && git diff --quiet 2>/dev/null && git apply seed_out/patch.diff; make -j8 >/dev/null 2>&1 )
sh $out/demo.sh /repo >/tmp/ingest_$id.clean 2>&1; rc0=$?
sh $out/demo.sh $wt >/tmp/ingest_$id.mut 2>&1; rc1=$?
p=$(cd $wt && make tests 2>&1 | grep -c PASS); f=$(cd $wt && make tests 2>&1 | grep -ci fail)
prop=$(echo $id | cut -d_ -f1)
res="rejected"; [ $rc0 -eq 0 ] && [ $rc1 -ne 0 ] && [ "$p" = "7988" ] && [ "$f" = "0" ] && res="confirmed"
python3 - <<P
import json
json.dump({"id":"$id","property":"$prop","origin":"written by an independent sub-agent that saw only the property text and a scratch worktree",
 "confirmed_by_me":{"procedure":"demo.sh on /repo's build must exit 0; on the agent's worktree with patch.diff applied and rebuilt it must exit non-zero; make tests there: 7988 PASS lines, 0 fail lines",
 "log":["demo on unmodified: rc=$rc0","demo on mutant: rc=$rc1","tests PASS=$p FAILlines=$f","RESULT $res"]},"detected_by":None,"runs":{}}, open("$out/meta.json","w"), indent=1)
P
echo "$id: clean rc=$rc0 mutant rc=$rc1 tests PASS=$p fail=$f -> $res"
