#!/usr/bin/env python3
"""Runner for contract obligations: compile the real sources with goto-cc,
instrument loop contracts with goto-instrument --dfcc, discharge with cbmc,
classify every CBMC property, write evidence, report violations.

Exit codes of a check:  0 all obligations discharged (known findings allowed)
                        1 at least one obligation failed that known_findings.txt does not list
                        2 undecided (timeout, tool abort, vacuity canary passed, zero obligations)
"""
import concurrent.futures
import hashlib
import json
import os
import re
import resource
import shutil
import subprocess
import sys
import time

VERIF = os.path.dirname(os.path.dirname(os.path.abspath(__file__)))
REPO = os.environ.get("VERIF_REPO", "/repo")
COMMON = os.path.join(VERIF, "contracts", "common")
# where evidence/ and replays/ are written (the seed runner redirects them so that runs against a
# patched scratch copy of the repository never overwrite the evidence of the real tree)
OUT = os.environ.get("VERIF_OUT", VERIF)

GLOBAL_TRUSTED = [
    "CBMC 6.11.0 (goto-cc C++ front end, goto-instrument DFCC, symbolic execution, MiniSat/CaDiCaL back end) is sound; machine integers are bit-vectors",
    "source rewrites T1-T9 (tools/prep_tree.py; DESIGN 2.1) preserve the semantics of the verified functions; class layouts with bit-fields are not claimed",
    "g++ code generation agrees with CBMC's C++ semantics on the verified functions (UB turned into obligations where a check flag is listed)",
    "libc behaves as the stubs in contracts/common state; malloc succeeds",
    "witness projection: an obligation proved for an arbitrary (nondet) witness index/address holds for all of them",
]


class Group:
    """One obligation group = one CBMC run on one harness."""

    def __init__(self, name, unity, entry, functions, tier="quick", defines=(), c_sources=(),
                 loops=None, unwind=None, unwindset=(), checks=("--bounds-check", "--pointer-check"),
                 timeout=300, bounded=None, includes=(), extra_cbmc=(), t9=None, mem_gb=10, reach=True,
                 loop_functions=(), replay=None, nondet_static=False, note=None, expected_loops=0, subst=None, cpp_sources=()):
        self.name = name              # e.g. C05/parse_dc16
        self.unity = unity            # path of the harness unity TU relative to /verif/contracts
        self.entry = entry            # extern "C" harness function
        self.functions = list(functions)  # [(function, file, carrier)] real functions under contract
        self.tier = tier
        self.defines = list(defines)
        self.c_sources = list(c_sources)
        self.loops = loops            # loop-contract JSON (relative to /verif/contracts) or None
        self.unwind = unwind
        self.unwindset = list(unwindset)
        self.checks = list(checks)
        self.timeout = timeout
        self.bounded = bounded        # None, or text stating the bound -> not counted as proved
        self.includes = list(includes)
        self.extra_cbmc = list(extra_cbmc)
        self.mem_gb = mem_gb
        self.reach = reach      # second pass: every loop back edge must be reachable under its contract
        self.replay = replay          # optional callable(group, failure, workdir) -> replay info
        self.note = note
        self.subst = dict(subst or {})
        self.cpp_sources = list(cpp_sources)   # real /repo translation units compiled separately (relative to the tree)
        self.expected_loops = expected_loops  # number of loops that must show invariant base+step obligations


def sh(cmd, timeout=None, cwd=None, mem_gb=None, stdout_path=None):
    def lim():
        if mem_gb:
            b = int(mem_gb * (1 << 30))
            resource.setrlimit(resource.RLIMIT_AS, (b, b))
    t0 = time.time()
    try:
        if stdout_path:
            with open(stdout_path, "wb") as out:
                p = subprocess.run(cmd, cwd=cwd, stdout=out, stderr=subprocess.PIPE, timeout=timeout, preexec_fn=lim)
            so = b""
        else:
            p = subprocess.run(cmd, cwd=cwd, stdout=subprocess.PIPE, stderr=subprocess.PIPE, timeout=timeout, preexec_fn=lim)
            so = p.stdout
        return p.returncode, so.decode(errors="replace"), p.stderr.decode(errors="replace"), time.time() - t0
    except subprocess.TimeoutExpired:
        return -9, "", "TIMEOUT", time.time() - t0


def src_line(path, line):
    try:
        with open(path, errors="replace") as fh:
            for i, l in enumerate(fh, 1):
                if i == line:
                    return " ".join(l.strip().split())
    except OSError:
        pass
    return ""


def run_group(g, scratch, tree):
    """Returns a result dict for one group."""
    wd = os.path.join(scratch, re.sub(r"[^A-Za-z0-9_.-]", "_", g.name))
    os.makedirs(wd, exist_ok=True)
    res = {"group": g.name, "status": "ok", "props": [], "wall_s": 0.0, "solver_s": 0.0,
           "cmds": [], "reason": "", "bounded": g.bounded, "workdir": wd}
    t0 = time.time()
    src = os.path.join(tree, "src")
    inc = ["-I" + src, "-I" + COMMON, "-I" + os.path.join(VERIF, "contracts")] + ["-I" + os.path.join(VERIF, "contracts", i) for i in g.includes]
    defs = ["-Dprivate=public", "-Dprotected=public", "-DVERIF_CBMC=1"] + ["-D" + d for d in g.defines]
    if not any(d.startswith("VERIF_PURE_BODY") for d in g.defines):
        defs.append('-DVERIF_PURE_BODY={ __CPROVER_assert(0, "pure virtual called"); }')   # T5
    unity = os.path.join(VERIF, "contracts", g.unity)
    objs = []
    a_gb = os.path.join(wd, "a.gb")
    cmd = ["goto-cc", "-x", "c++"] + defs + inc + ["-c", unity, "-o", a_gb]
    res["cmds"].append(" ".join(cmd))
    rc, so, se, _ = sh(cmd, timeout=600)
    if rc != 0:
        res["status"] = "undecided"
        res["reason"] = "goto-cc failed: " + (se + so)[-600:]
        res["wall_s"] = time.time() - t0
        return res
    objs.append(a_gb)
    for i, c in enumerate(g.c_sources):
        o = os.path.join(wd, "c%d.gb" % i)
        cmd = ["goto-cc"] + ["-D" + d for d in g.defines] + ["-DVERIF_CBMC=1", "-I" + COMMON, "-c", os.path.join(VERIF, "contracts", c), "-o", o]
        rc, so, se, _ = sh(cmd, timeout=300)
        if rc != 0:
            res["status"] = "undecided"
            res["reason"] = "goto-cc (C sidecar) failed: " + (se + so)[-600:]
            res["wall_s"] = time.time() - t0
            return res
        objs.append(o)
    for i, c in enumerate(g.cpp_sources):
        o = os.path.join(wd, "x%d.gb" % i)
        cmd = ["goto-cc", "-x", "c++"] + defs + inc + ["-c", os.path.join(src, c), "-o", o]
        rc, so, se, _ = sh(cmd, timeout=600)
        if rc != 0:
            res["status"] = "undecided"
            res["reason"] = "goto-cc (%s) failed: %s" % (c, (se + so)[-600:])
            res["wall_s"] = time.time() - t0
            return res
        objs.append(o)
    l_gb = os.path.join(wd, "l.gb")
    cmd = ["goto-cc"] + objs + ["--function", g.entry, "-o", l_gb]
    rc, so, se, _ = sh(cmd, timeout=600)
    if rc != 0:
        res["status"] = "undecided"
        res["reason"] = "goto-cc link failed: " + (se + so)[-600:]
        res["wall_s"] = time.time() - t0
        return res
    d_gb = os.path.join(wd, "d.gb")
    cmd = ["goto-instrument", "--drop-unused-functions", l_gb, d_gb]
    rc, so, se, _ = sh(cmd, timeout=600)
    if rc != 0:
        res["status"] = "undecided"
        res["reason"] = "drop-unused-functions failed: " + (se + so)[-600:]
        res["wall_s"] = time.time() - t0
        return res
    final = d_gb
    g_unw = g.unwind
    if g.loops:
        lc_src = os.path.join(VERIF, "contracts", g.loops)
        lc = os.path.join(wd, "loops.json")
        with open(lc_src) as fh:
            text = fh.read()
        text = text.replace("@SRC@", src).replace("@UNITY@", unity)
        for k, v in g.subst.items():
            text = text.replace("@%s@" % k, str(v))
        # the ghost input log (vh.h) is written by every stub that draws a symbolic value
        text = re.sub(r'("assigns"\s*:\s*")', r'\1g_nd_n, __CPROVER_object_whole(g_nd_log), ', text)
        if "@L:" in text:
            rc, so, se, _ = sh(["goto-instrument", "--show-symbol-table", d_gb], timeout=300)
            syms = re.findall(r"^Symbol\.+: (\S.*)$", so, re.M)
            bad = []
            def resolve(m):
                fn, var = m.group(1), m.group(2)
                deepest = var.endswith("^")      # "name^": the innermost declaration of that name
                var = var.rstrip("^")
                ordinal = None                   # "name#k": the k-th declaration of that name in source (scope-path) order
                if "#" in var:
                    var, o = var.split("#"); ordinal = int(o)
                c = [x for x in syms if (x.startswith(fn + "::") or x.startswith(fn + "(")) and x.endswith("::" + var)
                     and "$" not in x]
                if deepest and len(c) > 1:
                    m2 = max(x.count("::") for x in c)
                    c = [x for x in c if x.count("::") == m2]
                if ordinal is not None and len(c) > ordinal:
                    c.sort(key=lambda x: [int(t) if t.isdigit() else -1 for t in x.split("::")])
                    c = [c[ordinal]]
                if len(c) != 1:
                    bad.append("%s:%s -> %r" % (fn, var, c))
                    return "UNRESOLVED"
                return c[0]
            text = re.sub(r"@L:((?:[^:@]|::)+):([^:@]+)@", resolve, text)
            if bad:
                res["status"] = "undecided"
                res["reason"] = "loop-contract local not found (function renamed or restructured): " + "; ".join(bad)
                res["wall_s"] = time.time() - t0
                return res
        with open(lc, "w") as fh:
            fh.write(text)
        i_gb = os.path.join(wd, "i.gb")
        cmd = ["goto-instrument", "--dfcc", g.entry, "--apply-loop-contracts", "--loop-contracts-file", lc, d_gb, i_gb]
        res["cmds"].append(" ".join(cmd))
        rc, so, se, _ = sh(cmd, timeout=900, mem_gb=g.mem_gb)
        if rc != 0:
            # The loop contracts no longer fit the code (a loop disappeared or was restructured).  Fall back to
            # complete unwinding of the harness without loop contracts: a failed obligation there is a
            # violation (the postconditions do not depend on the loop contract); a pass is reported as
            # undecided because the contract must be rewritten before the proof can be claimed again.
            res["dfcc_fallback"] = (se + so)[-300:]
            final = d_gb
            if not g.unwind or g.unwind < 12:
                g_unw = 12
            else:
                g_unw = g.unwind
        else:
            final = i_gb
            g_unw = g.unwind
    cb = ["cbmc", final, "--no-standard-checks"] + g.checks + ["--unwinding-assertions",
          "--max-field-sensitivity-array-size", "1024", "--json-ui"]
    if "--object-bits" not in g.extra_cbmc:
        cb += ["--object-bits", "12"]
    if g_unw:
        cb += ["--unwind", str(g_unw)]
    if g.unwindset:
        cb += ["--unwindset", ",".join(g.unwindset)]
    cb += g.extra_cbmc
    res["cmds"].append(" ".join(cb))
    out_json = os.path.join(wd, "cbmc.json")
    ts = time.time()
    rc, so, se, dt = sh(cb, timeout=g.timeout, mem_gb=g.mem_gb, stdout_path=out_json)
    res["solver_s"] = time.time() - ts
    if rc == -9:
        res["status"] = "undecided"
        res["reason"] = "cbmc timeout after %ds" % g.timeout
        res["wall_s"] = time.time() - t0
        return res
    try:
        with open(out_json) as fh:
            data = json.load(fh)
    except Exception as e:  # truncated output: memory limit or abort
        res["status"] = "undecided"
        res["reason"] = "cbmc output unreadable (rc=%s): %s %s" % (rc, e, se[-300:])
        res["wall_s"] = time.time() - t0
        return res
    props = None
    msgs = []
    for item in data:
        if "result" in item:
            props = item["result"]
        if "messageText" in item:
            msgs.append(item["messageText"])
    alltext = "\n".join(msgs)
    if props is None:
        res["status"] = "undecided"
        res["reason"] = "cbmc produced no result (rc=%s): %s" % (rc, alltext[-600:])
        res["wall_s"] = time.time() - t0
        return res
    for bad in ("ignoring forall", "ignoring exists", "no body for callee"):
        if bad in alltext:
            # 'no body' is tolerated only for nondet_* generators
            if bad == "no body for callee":
                ms = [m for m in msgs if "no body for callee" in m and "nondet_" not in m]
                if not ms:
                    continue
                res["status"] = "undecided"
                res["reason"] = "callee without body or contract: " + ms[0]
            else:
                res["status"] = "undecided"
                res["reason"] = "solver dropped a quantifier"
    seen_base = 0
    seen_step = 0
    for p in props:
        name = p.get("property", "")
        desc = p.get("description", "")
        st = p.get("status", "")
        loc = p.get("sourceLocation", {}) or {}
        f = loc.get("file", "")
        ln = int(loc.get("line", "0") or 0)
        fn = loc.get("function", "")
        if "loop_invariant_base" in name:
            seen_base += 1
        if "loop_invariant_step" in name:
            seen_step += 1
        entry = {"id": name, "desc": desc, "status": st, "file": os.path.relpath(f, tree) if f.startswith(tree) else f,
                 "line": ln, "function": fn}
        if st == "FAILURE":
            entry["src"] = src_line(f, ln)
            tr = p.get("trace")
            if tr:
                entry["trace"] = tr
        res["props"].append(entry)
    if res.get("dfcc_fallback"):
        real = [p for p in res["props"] if p["status"] == "FAILURE" and not p["desc"].startswith("canary") and ".unwind" not in p["id"]]
        if not real:
            res["status"] = "undecided"
            res["reason"] = "loop contracts could not be applied (loop structure changed) and the bounded fallback found no failing obligation: " + res["dfcc_fallback"].replace("\n", " ")[:200]
        else:
            res["props"] = [p for p in res["props"] if ".unwind" not in p["id"]]
    elif g.loops and (seen_base < g.expected_loops or seen_step < g.expected_loops or seen_base == 0):
        res["status"] = "undecided"
        res["reason"] = "loop contract silently dropped: %d base / %d step obligations, expected >= %d" % (seen_base, seen_step, max(1, g.expected_loops))
    # Vacuity guard for loop contracts: the step/variant obligations of a loop whose body cannot be reached under
    # its own invariant pass vacuously.  Second pass: every variant is replaced by the constant 0, so the
    # "variant decreases" assertion (0 < 0) FAILS exactly when the loop's back edge is reachable.  One canary per loop.
    if (g.loops and not res.get("dfcc_fallback") and res["status"] == "ok" and getattr(g, "reach", True)
            and not os.environ.get("VERIF_NO_REACH")
            and not [p for p in res["props"] if p["status"] == "FAILURE" and not p["desc"].startswith("canary")]):
        with open(lc) as fh:
            j2 = json.load(fh)
        for fdict in j2.get("functions", []):
            for loops_ in fdict.values():
                for l_ in loops_:
                    l_["decreases"] = "0"
        t2 = json.dumps(j2, indent=1)
        lc2 = os.path.join(wd, "loops_reach.json")
        with open(lc2, "w") as fh:
            fh.write(t2)
        r_gb = os.path.join(wd, "r.gb")
        rc, so, se, _ = sh(["goto-instrument", "--dfcc", g.entry, "--apply-loop-contracts", "--loop-contracts-file", lc2, d_gb, r_gb], timeout=900, mem_gb=g.mem_gb)
        reach = {}
        if rc == 0:
            cb2 = ["cbmc", r_gb, "--no-standard-checks", "--max-field-sensitivity-array-size", "1024", "--json-ui"]
            if "--object-bits" not in g.extra_cbmc:
                cb2 += ["--object-bits", "12"]
            if g_unw:
                cb2 += ["--unwind", str(g_unw)]
            if g.unwindset:
                cb2 += ["--unwindset", ",".join(g.unwindset)]
            cb2 += g.extra_cbmc
            res["cmds"].append(" ".join(cb2))
            out2 = os.path.join(wd, "cbmc_reach.json")
            ts = time.time()
            rc, so, se, dt = sh(cb2, timeout=g.timeout, mem_gb=g.mem_gb, stdout_path=out2)
            res["solver_s"] += time.time() - ts
            try:
                with open(out2) as fh:
                    d2 = json.load(fh)
                for item in d2:
                    for p in item.get("result", []) if isinstance(item, dict) else []:
                        if "loop_decreases" in p.get("property", ""):
                            m = re.search(r"for loop (\S+)", p.get("description", ""))
                            nm = m.group(1) if m else p["property"]
                            reach[nm] = reach.get(nm, False) or p.get("status") == "FAILURE"
            except Exception:
                reach = {}
        if not reach:
            res["status"] = "undecided"
            res["reason"] = "loop reachability pass produced no result (timeout or tool failure)"
        for nm, ok in sorted(reach.items()):
            res["props"].append({"id": "reach." + nm, "desc": "canary: back edge of loop %s is reachable under its contract (variant replaced by 0 must fail)" % nm,
                                 "status": "FAILURE" if ok else "SUCCESS", "file": "", "line": 0, "function": ""})
        res["loop_reach"] = reach
    res["wall_s"] = time.time() - t0
    return res


def obligation_key(group, p):
    """Stable name of an obligation: harness assertions by their text, generated
    checks by class + function + the source text they point at."""
    d = p["desc"]
    pid = p["id"]
    cls = re.sub(r"\.\d+$", "", pid)
    cls = cls.split(".")[-1] if "." in cls else cls
    if cls in ("assertion",) or ":" in d[:40] and cls not in ("pointer_dereference", "array_bounds"):
        return "%s::%s" % (group, d)
    return "%s::%s/%s/%s @ %s" % (group, p["function"].split("(")[0], cls, re.sub(r"\s+", " ", d)[:90], p.get("src", ""))


def load_known():
    path = os.path.join(VERIF, "known_findings.txt")
    findings = []
    if os.path.exists(path):
        with open(path) as fh:
            for line in fh:
                line = line.rstrip("\n")
                if line.startswith("finding:"):
                    m = re.match(r"finding:\s+property=(\S+)\s+obligation=\[(.*?)\]\s*(.*)$", line)
                    if m:
                        findings.append({"property": m.group(1), "obligation": m.group(2), "what": m.group(3)})
    return findings


def extract_inputs(trace):
    """Symbolic inputs of a counterexample in program order, read from the ghost log of vh.h:
    every nondet_T() stores its value in g_nd_log[g_nd_n] and then increments g_nd_n.  A log that
    does not grow by exactly one each time (loop-contract havoc) is not an input-level trace."""
    last = {}
    out = []
    for st in trace or []:
        if st.get("stepType") != "assignment" or st.get("hidden"):
            continue
        lhs = st.get("lhs", "")
        v = st.get("value", {})
        m = re.match(r"g_nd_log\[(\d+)", lhs)
        if m:
            last[int(m.group(1))] = v.get("data", v.get("name"))
        elif lhs == "g_nd_n":
            try:
                n = int(re.sub(r"[uUlL]+$", "", str(v.get("data"))))
            except ValueError:
                return []
            if n != len(out) + 1:
                return []
            if n - 1 < 96:
                if (n - 1) not in last:
                    return []
                out.append({"index": n - 1, "value": last[n - 1]})
    return out


def run_check(prop_id, groups, tier, level, trusted=(), assumptions=(), explanation="", replay_hook=None,
              extra_coverage=None):
    """Run all groups of a property for the tier, write evidence, print verdict lines, return exit code."""
    from prep_tree import prep
    t0 = time.time()
    seed = int(os.environ.get("VERIF_SEED", "0") or 0)
    scratch = os.environ.get("VERIF_SCRATCH") or "/var/tmp/verif.%s.%d" % (prop_id, os.getpid())
    os.makedirs(scratch, exist_ok=True)
    shutil.rmtree(os.path.join(OUT, "replays", prop_id), ignore_errors=True)
    sel = [g for g in groups if tier == "thorough" or g.tier == "quick"]
    only = os.environ.get("VERIF_ONLY")
    if only:
        sel = [g for g in sel if re.search(only, g.name)]
    if seed:
        import random
        random.Random(seed).shuffle(sel)
    sel.sort(key=lambda g: -g.timeout)
    try:
        totals, _files = prep(REPO, scratch)
        jobs = int(os.environ.get("VERIF_JOBS", "0") or 0) or max(1, min(16, (os.cpu_count() or 4)))
        results = []
        with concurrent.futures.ThreadPoolExecutor(max_workers=jobs) as ex:
            # groups that may need a large share of the machine's memory run one at a time (memory budget of the
            # machine / 2), the others in parallel
            import threading
            try:
                with open("/proc/meminfo") as fh:
                    total_gb = int(re.search(r"MemTotal:\s+(\d+)", fh.read()).group(1)) / (1 << 20)
            except Exception:
                total_gb = 16
            heavy = threading.Semaphore(max(1, int(total_gb * 0.8 // 28)))
            def run_one(g):
                if g.mem_gb >= 20:
                    with heavy:
                        return run_group(g, scratch, scratch)
                return run_group(g, scratch, scratch)
            futs = {ex.submit(run_one, g): g for g in sel}
            for fu in concurrent.futures.as_completed(futs):
                g = futs[fu]
                try:
                    r = fu.result()
                except Exception as e:  # pragma: no cover
                    r = {"group": g.name, "status": "undecided", "reason": "runner exception %r" % (e,), "props": [],
                         "wall_s": 0, "solver_s": 0, "cmds": [], "bounded": g.bounded, "workdir": ""}
                results.append(r)
                if os.environ.get("VERIF_VERBOSE"):
                    nf = sum(1 for p in r["props"] if p["status"] == "FAILURE" and not p["desc"].startswith("canary"))
                    print("  [%s] %s %.0fs props=%d fail=%d %s" % (r["status"], r["group"], r["wall_s"], len(r["props"]), nf, r["reason"][:300]), flush=True)
        results.sort(key=lambda r: r["group"])
        code = finish(prop_id, sel, results, tier, seed, level, trusted, assumptions, explanation, totals, t0,
                      replay_hook, extra_coverage, scratch)
    finally:
        if not os.environ.get("VERIF_KEEP"):
            shutil.rmtree(scratch, ignore_errors=True)
    return code


def finish(prop_id, sel, results, tier, seed, level, trusted, assumptions, explanation, totals, t0, replay_hook,
           extra_coverage, scratch):
    known = [k for k in load_known() if k["property"] == prop_id]
    gmap = {g.name: g for g in sel}
    obligations = 0
    discharged = 0
    bounded_checks = []
    undecided = []
    violations = []
    known_hit = []
    samples = []
    canaries = 0
    functions = []
    seenf = set()
    solver_s = 0.0
    cmds = []
    for r in results:
        g = gmap[r["group"]]
        solver_s += r.get("solver_s", 0.0)
        for f in g.functions:
            if tuple(f) not in seenf:
                seenf.add(tuple(f))
                functions.append({"function": f[0], "file": f[1], "carrier": f[2] if len(f) > 2 else "harness"})
        if r["cmds"]:
            cmds.append(r["cmds"][-1])
        if r["status"] != "ok":
            undecided.append({"group": r["group"], "reason": r["reason"]})
            continue
        n_ob = 0
        n_ok = 0
        canary_ok = True
        n_can = 0
        n_unknown = 0
        fails = []
        for p in r["props"]:
            if p["desc"].startswith("canary"):
                n_can += 1
                if p["status"] != "FAILURE":
                    canary_ok = False
                continue
            n_ob += 1
            if p["status"] == "SUCCESS":
                n_ok += 1
            elif p["status"] == "FAILURE":
                fails.append(p)
            else:
                n_unknown += 1
        if n_unknown and not fails:
            uw = [p["id"] for p in r["props"] if p["status"] == "FAILURE" and "unwind" in p["id"]]
            undecided.append({"group": r["group"], "reason": "%d properties with status UNKNOWN/ERROR (solver out of memory, or failed unwinding assertion: %s)" % (n_unknown, ", ".join(uw[:4]) or "none listed")})
            continue
        if (n_can == 0 or not canary_ok) and not [p for p in fails if ".unwind" not in p["id"] or getattr(g, "unwind_is_spec", False)]:
            # (a failed obligation is itself a reachability witness: it is classified below even if a canary did not fail)
            undecided.append({"group": r["group"], "reason": "vacuity canary %s" % ("missing" if n_can == 0 else "did not fail: harness end unreachable")})
            continue
        if n_ob == 0:
            undecided.append({"group": r["group"], "reason": "zero obligations"})
            continue
        canaries += n_can
        if g.bounded:
            bounded_checks.append({"group": r["group"], "bound": g.bounded, "checked": n_ob, "passed": n_ok})
        else:
            obligations += n_ob
            discharged += n_ok
        if len(samples) < 12 and r["props"]:
            ps = [p for p in r["props"] if not p["desc"].startswith("canary")]
            pick = [p for p in ps if p["id"].split(".")[-2:-1] == ["assertion"]][:2] or ps[:2]
            for p in pick:
                samples.append({"group": r["group"], "cbmc_property": p["id"], "obligation": p["desc"], "status": p["status"]})
        uw_fail = [p for p in fails if ".unwind." in p["id"] or p["id"].endswith(".unwind")]
        if uw_fail and not getattr(g, "unwind_is_spec", False):
            # an unwinding assertion only says that the bound chosen for the run was too small
            undecided.append({"group": r["group"], "reason": "unwinding bound too small for %s" % ", ".join(p["id"] for p in uw_fail[:3])})
            fails = [p for p in fails if p not in uw_fail]
            if not fails:
                continue
        for p in fails:
            key = obligation_key(r["group"], p)
            hit = None
            for k in known:
                if k["obligation"] == key:
                    hit = k
                    break
            if hit:
                known_hit.append({"obligation": key, "what": hit["what"]})
                if not g.bounded:
                    obligations -= 1  # a listed finding is neither discharged nor counted
                continue
            violations.append({"group": r["group"], "key": key, "prop": p, "workdir": r["workdir"]})
    lines = []
    for k in known_hit:
        lines.append("KNOWN-FINDING: property=%s %s [%s]" % (prop_id, k["what"], k["obligation"]))
    vcount = 0
    rdir = os.path.join(OUT, "replays", prop_id)
    seen_keys = set()
    for v in violations:
        if v["key"] in seen_keys:
            continue
        seen_keys.add(v["key"])
        vcount += 1
        os.makedirs(rdir, exist_ok=True)
        h = hashlib.sha1(v["key"].encode()).hexdigest()[:10]
        rp = os.path.join(rdir, "%s.json" % h)
        p = v["prop"]
        inputs = extract_inputs(p.get("trace"))
        info = {"property": prop_id, "obligation": v["key"], "cbmc_property": p["id"], "description": p["desc"],
                "location": {"file": p["file"], "line": p["line"], "function": p["function"], "source": p.get("src", "")},
                "nondet_inputs": inputs, "group": v["group"]}
        reproduced = False
        if inputs and not os.environ.get("VERIF_NO_REPLAY"):
            try:
                if replay_hook:
                    rr = replay_hook(gmap[v["group"]], v, inputs, scratch)
                else:
                    import replay as _rp
                    rr = _rp.native_replay(gmap[v["group"]], p["desc"], inputs, os.path.join(scratch, "replay_" + h))
                if rr:
                    info["native_replay"] = rr
                    reproduced = bool(rr.get("reproduced"))
            except Exception as e:  # replay must never break the verdict
                info["native_replay"] = {"error": repr(e)}
        tail = [s for s in (p.get("trace") or []) if s.get("stepType") in ("failure",)]
        info["verifier_output"] = {"failure_step": tail[-1] if tail else None,
                                   "trace_len": len(p.get("trace") or [])}
        with open(rp, "w") as fh:
            json.dump(info, fh, indent=1, default=str)
        suffix = "" if reproduced else " no-failing-input-found"
        lines.append("VIOLATION property=%s replay=%s obligation=[%s]%s" % (prop_id, rp, v["key"], suffix))
    for u in undecided:
        lines.append("UNDECIDED property=%s group=%s reason=%s" % (prop_id, u["group"], u["reason"].replace("\n", " ")[:400]))
    for l in lines:
        print(l)
    wall = time.time() - t0
    cov = {
        "obligations": obligations,
        "discharged": discharged,
        "checker_cmd": cmds[0] if cmds else "none",
        "trusted_base": GLOBAL_TRUSTED + list(trusted),
        "explanation": explanation,
        "functions_under_contract": functions,
        "groups_run": len(results),
        "bounded_checks": bounded_checks,
        "undecided": undecided,
        "backend": "cbmc 6.11.0 SAT (MiniSat 2.2.1 default back end), goto-instrument --dfcc for loop contracts",
        "solver_s": round(solver_s, 1),
        "canaries_failed_as_required": canaries,
        "known_findings_hit": known_hit,
        "transforms": totals,
        "samples": samples,
        "exhaustive": False,
    }
    if extra_coverage:
        cov.update(extra_coverage)
    ev = {"property_id": prop_id, "tier": tier, "seed": seed, "level": level, "coverage": cov,
          "assumptions": list(assumptions), "wall_s": round(wall, 1), "violations": vcount}
    os.makedirs(os.path.join(OUT, "evidence"), exist_ok=True)
    with open(os.path.join(OUT, "evidence", prop_id + ".json"), "w") as fh:
        json.dump(ev, fh, indent=1)
    print("SUMMARY property=%s tier=%s groups=%d obligations=%d discharged=%d bounded_groups=%d known=%d violations=%d undecided=%d wall=%.0fs"
          % (prop_id, tier, len(results), obligations, discharged, len(bounded_checks), len(known_hit), vcount, len(undecided), wall))
    if vcount:
        return 1
    if undecided:
        return 2
    if obligations == 0 and not bounded_checks:
        return 2
    return 0
