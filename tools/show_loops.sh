#!/bin/sh
# usage: tools/show_loops.sh <unity relative to contracts/> [-Dname=value ...]   lists the loops CBMC numbers in a harness (for writing loop-contract files)
u=$1; shift
t=/var/tmp/verif.showloops; rm -rf $t; mkdir -p $t
python3 /verif/tools/prep_tree.py /repo $t >/dev/null
goto-cc -x c++ -Dprivate=public -Dprotected=public -DVERIF_CBMC=1 "-DVERIF_PURE_BODY={ __CPROVER_assert(0, \"pure virtual called\"); }" "$@" -I$t/src -I/verif/contracts/common -I/verif/contracts -c /verif/contracts/$u -o $t/a.gb || exit 1
goto-instrument --show-loops $t/a.gb 2>/dev/null | grep -A1 "^Loop" | grep -v "^--" | paste - - | awk '{print $2,$5,$6}'
rm -rf $t
