#!/bin/sh
# usage: tools/try_patch.sh <patch.diff> [-R] -- <check id> [env...]
# applies the patch to /repo's working tree, runs ./check, always restores the tree
p=$1; shift; rev=""; [ "$1" = "-R" ] && { rev="-R"; shift; }; [ "$1" = "--" ] && shift
cd /repo || exit 9
git diff --quiet || { echo "/repo working tree not clean"; exit 9; }
git apply $rev "$p" || { echo "patch does not apply"; exit 9; }
cd /verif && ./check "$@"; rc=$?
git -C /repo checkout -- . 
echo "check exit=$rc"
exit $rc
