#!/usr/bin/env python3
"""Native replay of a CBMC counterexample: the same harness (stubs kept) is compiled with g++
against the UNTOUCHED /repo sources, nondet_*() return the recorded values in order, and the
named obligation must fail natively for the violation to count as reproduced."""
import json
import os
import re
import subprocess
import sys

VERIF = os.path.dirname(os.path.dirname(os.path.abspath(__file__)))
REPO = os.environ.get("VERIF_REPO", "/repo")
COMMON = os.path.join(VERIF, "contracts", "common")


def to_int(v):
    if v is None:
        return 0
    s = str(v).strip()
    s = re.sub(r"[uUlL]+$", "", s)
    if s in ("true", "TRUE"):
        return 1
    if s in ("false", "FALSE"):
        return 0
    m = re.match(r"^'(.)'$", s)
    if m:
        return ord(m.group(1))
    try:
        return int(s, 0)
    except ValueError:
        try:
            return int(float(s))
        except ValueError:
            return 0


def native_replay(group, description, inputs, workdir):
    os.makedirs(workdir, exist_ok=True)
    vals = os.path.join(workdir, "replay_values.txt")
    with open(vals, "w") as fh:
        for i in inputs:
            fh.write("%d\n" % to_int(i.get("value")))
    exe = os.path.join(workdir, "replay_bin")
    unity = os.path.join(VERIF, "contracts", group.unity)
    cmd = ["g++", "-std=c++17", "-w", "-fpermissive", "-fno-builtin", "-O0", "-Dprivate=public", "-Dprotected=public",
           "-DENTRY=" + group.entry] + ["-D" + d for d in group.defines] + \
          ["-I" + REPO, "-I" + COMMON, "-I" + os.path.join(VERIF, "contracts"), unity, os.path.join(COMMON, "replay_main.cpp"), "-o", exe]
    p = subprocess.run(cmd, stdout=subprocess.PIPE, stderr=subprocess.STDOUT, timeout=300)
    if p.returncode != 0:
        return {"reproduced": False, "status": "native build failed", "cmd": " ".join(cmd), "output": p.stdout.decode(errors="replace")[-800:]}
    env = dict(os.environ)
    env["VH_REPLAY"] = vals
    try:
        r = subprocess.run([exe], stdout=subprocess.PIPE, stderr=subprocess.STDOUT, timeout=60, env=env)
        out = r.stdout.decode(errors="replace")
        rc = r.returncode
    except subprocess.TimeoutExpired:
        out, rc = "TIMEOUT", -9
    hit = ("REPLAY-FAIL: " + description) in out
    crashed = rc < 0 or rc >= 128
    safety = any(k in description for k in ("dereference failure", "array", "bounds", "division by zero", "overflow"))
    return {"reproduced": bool(hit or (crashed and safety)), "status": "obligation failed natively" if hit else ("native run died with status %d" % rc if crashed else "not reproduced natively (rc=%d)" % rc),
            "cmd": " ".join(cmd), "values": [to_int(i.get("value")) for i in inputs][:64], "output": out[-1200:]}


def replay_file(mod, path):
    info = json.load(open(path))
    groups = {g.name: g for g in mod.GROUPS}
    g = groups.get(info.get("group"))
    print("replay of %s" % info.get("obligation"))
    print("  cbmc property : %s" % info.get("cbmc_property"))
    print("  location      : %s" % json.dumps(info.get("location")))
    if g is None or not info.get("nondet_inputs"):
        print("  no input-level counterexample was recorded (obligation over a havocked loop state or frame): no-failing-input-found")
        return 1
    rr = native_replay(g, info.get("description", ""), info["nondet_inputs"], "/var/tmp/verif.replay.%d" % os.getpid())
    print("  native replay : %s" % rr["status"])
    print(rr.get("output", "")[-600:])
    return 1 if rr["reproduced"] else 3
