#!/usr/bin/env python3
"""Apply each seeded change under /verif/seeded/ to /repo, run the checks named on the command
line (default: the check of the property the seed targets), restore /repo, and record in the
seed's meta.json which checks reported a violation.  usage: run_seeds.py [seed-id-regex] [--checks C05,C12] [--tier quick]"""
import json
import os
import re
import subprocess
import sys

VERIF = os.path.dirname(os.path.dirname(os.path.abspath(__file__)))
pat = sys.argv[1] if len(sys.argv) > 1 and not sys.argv[1].startswith("--") else "."
checks = None
tier = "quick"
for i, a in enumerate(sys.argv):
    if a == "--checks":
        checks = sys.argv[i + 1].split(",")
    if a == "--tier":
        tier = sys.argv[i + 1]
if subprocess.run(["git", "-C", "/repo", "diff", "--quiet"]).returncode != 0:
    print("/repo working tree is not clean"); sys.exit(9)
for sid in sorted(os.listdir(os.path.join(VERIF, "seeded"))):
    if not re.search(pat, sid):
        continue
    d = os.path.join(VERIF, "seeded", sid)
    meta = json.load(open(os.path.join(d, "meta.json")))
    which = checks or [meta["property"]]
    r = subprocess.run(["git", "-C", "/repo", "apply", os.path.join(d, "patch.diff")], stderr=subprocess.PIPE)
    if r.returncode != 0:
        print("%s: patch does not apply to the current /repo: %s" % (sid, r.stderr.decode()[:200])); continue
    try:
        for c in which:
            if not os.path.exists(os.path.join(VERIF, "props", c + ".py")):
                print("%s: no check %s" % (sid, c)); continue
            p = subprocess.run([os.path.join(VERIF, "check"), c, "--tier", tier], stdout=subprocess.PIPE, stderr=subprocess.STDOUT, cwd=VERIF)
            out = p.stdout.decode(errors="replace")
            viol = [l for l in out.split("\n") if l.startswith("VIOLATION")]
            und = [l for l in out.split("\n") if l.startswith("UNDECIDED")]
            print("%s: check %s exit=%d violations=%d undecided=%d %s" % (sid, c, p.returncode, len(viol), len(und), (viol[0][:230] if viol else (und[0][:200] if und else ""))))
            meta.setdefault("runs", {})[c + ":" + tier] = {"exit": p.returncode, "violations": [re.sub(r" replay=\S+", "", v)[:300] for v in viol[:6]], "undecided": [u[:200] for u in und[:3]]}
        det = sorted(k for k, v in meta.get("runs", {}).items() if v["exit"] == 1)
        meta["detected_by"] = det or None
        json.dump(meta, open(os.path.join(d, "meta.json"), "w"), indent=1)
    finally:
        subprocess.run(["git", "-C", "/repo", "checkout", "--", "."])
