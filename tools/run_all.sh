#!/bin/sh
# usage: tools/run_all.sh [quick|thorough] [ids...]   - runs the registered checks one after the other, prints exit code and wall time
tier=${1:-quick}; shift
ids=${@:-C01 C02 C03 C04 C05 C06 C08 C09 C10 C11 C12 C13 C14 C15 C16 C17 C18 C19 C20}
cd /verif
for id in $ids; do
  s=$(date +%s)
  ./check $id --tier $tier > ${RUNALL_LOG:-/tmp}/runall_${tier}_$id.log 2>&1; rc=$?
  e=$(date +%s)
  echo "$id exit=$rc wall=$((e-s))s $(grep -c '^VIOLATION' ${RUNALL_LOG:-/tmp}/runall_${tier}_$id.log) violations $(grep -c '^UNDECIDED' ${RUNALL_LOG:-/tmp}/runall_${tier}_$id.log) undecided $(grep -c '^KNOWN-FINDING' ${RUNALL_LOG:-/tmp}/runall_${tier}_$id.log) known"
done
