#!/usr/bin/env python3
"""Rewrite the `fixed:` block of known_findings.txt from the fix: commits of /repo (documentation only)."""
import os, re, subprocess
VERIF = os.path.dirname(os.path.dirname(os.path.abspath(__file__)))
p = os.path.join(VERIF, "known_findings.txt")
s = open(p).read()
i = s.index("# --- repaired defects")
log = subprocess.run(["git", "-C", "/repo", "log", "--format=%h %s", "7769d5f..HEAD"], stdout=subprocess.PIPE).stdout.decode().strip().split("\n")
PM = [("Memory page lookup", "C05"), ("integer division", "C04"), ("binary literals", "C04"), ("over-long token", "C16"), ("malformed macro invocation", "C12"),
      ("macro arguments and expansions", "C16"), (".ifndef nested", "C10"), ("errors inside conditional", "C12"), ("S2 record", "C03"), ("write_wdc dropped", "C03"), ("read_uf2 read past", "C17"), ("read_amiga looped", "C17"), ("read_elf and read_macho looped", "C17"), ("print16 and print32 never stopped", "C17"), ("write/write16/write32 never returned", "C17"), ("linking a plain .o file", "C20"), ("disasm_range_tms9900 overran", "C08"), ("naken_util -disasm_range as the last", "C17"), ("an image that reaches address 0xffffffff", "C16"), ("naken_util disasm walked the memory pages", "C08"), ("naken_util repeated its last command", "C17"), ("Symbols::iterate", "C11"),
      ("msp430 simulator reads", "C14"), ("tms340", "C02"), (".align/.align_bytes", "C05"), ("unary - or ~", "C04"), ("ending in a binary operator", "C04"),
      ("unterminated parenthesis", "C04"), ("disasm_6502", "C08"), ("SUB/CMP flags", "C14"), ("XOR.B", "C14"), ("SXT", "C14"), ("disasm_msp430", "C08"),
      ("8008 simulator", "C15"), ("get_reg_number", "C06"), ("write/write16/write32 stop", "C17"), ("get_hex does not step", "C17"), ("jal target", "C20"),
      ("duplicate macro or equ", "C12"), (".set on an existing label", "C11"), (".func with an already", "C12"), (".endif ends the conditional", "C10"),
      (">= and <= are tokenized", "C10"), ("pending comparison", "C10")]
lines = ["# --- repaired defects (fix: commits in /repo); a fixed entry suppresses nothing"]
for l in reversed(log):
    h, msg = l.split(" ", 1)
    if not msg.startswith("fix:"):
        continue
    pid = "C??"
    for k, v in PM:
        if k in msg:
            pid = v
    lines.append("fixed: property=%s %s %s" % (pid, h, msg.replace("fix: ", "")))
open(p, "w").write(s[:i] + "\n".join(lines) + "\n")
print(len(lines) - 1, "fixed entries;", sum(1 for l in lines if "C??" in l), "unmapped")
