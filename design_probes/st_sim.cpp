#include "core/Memory.h"
#include "simulate/Simulate.h"
extern "C" {
#define LM 16
unsigned g_la[LM]; unsigned char g_lv[LM]; unsigned char g_lw[LM]; int g_ln;
unsigned char nondet_uchar();
static int lm_find(unsigned a) { for (int i = 0; i < LM; i++) { if (i < g_ln && g_la[i] == a) return i; } return -1; }
unsigned char lm_read(unsigned a) { int i = lm_find(a); if (i >= 0) return g_lv[i]; __CPROVER_assert(g_ln < LM, "lazy memory table full"); g_la[g_ln] = a; g_lv[g_ln] = nondet_uchar(); g_lw[g_ln] = 0; return g_lv[g_ln++]; }
void lm_write(unsigned a, unsigned char v) { int i = lm_find(a); if (i < 0) { __CPROVER_assert(g_ln < LM, "lazy memory table full"); i = g_ln++; g_la[i] = a; } g_lv[i] = v; g_lw[i] = 1; }
}
Memory::Memory() : pages{nullptr}, low_address{0xffffffff}, high_address{0}, entry_point{0xffffffff}, endian{ENDIAN_LITTLE} {}
Memory::~Memory() {}
uint8_t Memory::read8(uint32_t address) { return lm_read(address); }
void Memory::write8(uint32_t address, uint8_t data) { lm_write(address, data); }
uint16_t Memory::read16(uint32_t address) { return read8(address) | (read8(address + 1) << 8); }
void Memory::write16(uint32_t address, uint16_t data) { write8(address, data & 0xff); write8(address + 1, data >> 8); }
extern "C" void exit(int) { __CPROVER_assume(0); }
extern "C" int usleep(unsigned) { return 0; }
extern "C" int getc(FILE *f) { int nondet_int(); return nondet_int(); }
extern "C" int putc(int c, FILE *f) { return c; }
extern "C" int fclose(FILE *f) { return 0; }
extern "C" int printf(const char *fmt, ...) { return 0; }
