#include "simulate/msp430.h"
extern "C" {
unsigned short nondet_ushort(); unsigned nondet_uint();
void h_sim_add()
{
  Memory m;
  g_ln = 0;
  SimulateMsp430 sim_obj(&m); SimulateMsp430 *sim = &sim_obj;
  for (int i = 0; i < 16; i++) sim->reg[i] = nondet_ushort();
  sim->show = false; sim->auto_run = false; sim->serial_in = 0; sim->serial_out = 0; sim->break_io = 0xffffffff; sim->break_point = -1; sim->cycle_count = 0; sim->nested_call_count = 0;
  unsigned rs = nondet_uint(), rd = nondet_uint();
  __CPROVER_assume(rs >= 4 && rs < 16 && rd >= 4 && rd < 16);
  unsigned short pc = sim->reg[0]; __CPROVER_assume((pc & 1) == 0 && pc < 0xfff0);
  unsigned short opcode = 0x5000 | (rs << 8) | rd;   // add.w Rs, Rd
  g_ln = 0; lm_write(pc, opcode & 0xff); lm_write(pc + 1, opcode >> 8);
  unsigned short s = sim->reg[rs], d = sim->reg[rd], sr = sim->reg[2];
  sim->reg[0] += 2; int ret = sim->two_operand_exe(opcode);
  unsigned sum = (unsigned)s + (unsigned)d;
  unsigned short res = sum & 0xffff;
  __CPROVER_assert(ret == 0, "executed");
  __CPROVER_assert(sim->reg[rd] == res, "ADD result");
  __CPROVER_assert(sim->reg[0] == (unsigned short)(pc + 2), "PC += 2");
  unsigned c = sum >> 16, z = res == 0, n = res >> 15, v = ((s ^ res) & (d ^ res) & 0x8000) != 0;
  unsigned short want = (sr & ~0x107) | c | (z << 1) | (n << 2) | (v << 8);
  __CPROVER_assert(sim->reg[2] == want, "ADD flags C Z N V per SLAU144");
}
}
