#include <stdio.h>
#include <stdlib.h>
#include <string.h>
#include "core/AsmContext.h"
#include "core/Linker.h"
extern "C" { int nondet_int(); }
// stubs for what AsmContext.cpp references but this obligation does not reach
int parse_instruction_msp430(AsmContext *, char *) { return 0; }
void list_output_msp430(AsmContext *, uint32_t, uint32_t) {}
int parse_directives(AsmContext *) { return 0; }
int parse_org(AsmContext *) { return 0; }
int parse_db(AsmContext *, int) { return 0; }
int parse_dc16(AsmContext *) { return 0; }
int parse_dc32(AsmContext *) { return 0; }
int parse_dc64(AsmContext *) { return 0; }
int parse_varuint(AsmContext *, int) { return 0; }
int parse_resb(AsmContext *, int) { return 0; }
int tokens_get(AsmContext *, char *, int) { return -1; }
int tokens_get_char(AsmContext *) { return -1; }
int tokens_unget_char(AsmContext *, int) { return 0; }
void tokens_push(AsmContext *, const char *, int) {}
char *macros_lookup(Macros *, char *, int *) { return 0; }
int macros_append(AsmContext *, char *, char *, int) { return 0; }
void macros_strip(char *) {}
void macros_strip_comment(AsmContext *) {}
void print_error_unexp(AsmContext *, const char *) {}
void print_already_defined(AsmContext *, char *) {}
Linker::Linker() {} Linker::~Linker() {}
int Linker::add_file(const char *) { return 0; }
const char *Linker::get_symbol_at_index(int) { return 0; }
uint8_t *Linker::get_code_from_symbol(Imports **, const char *, uint32_t *, uint32_t *, uint8_t **, uint32_t *) { return 0; }
int Macros::dump(FILE *) { return 0; }
struct _cpu_list cpu_list[1];
extern "C" int fseek(FILE *f, long o, int w) { return 0; }
extern "C" int printf(const char *fmt, ...) { return 0; }
extern "C" int fprintf(FILE *f, const char *fmt, ...) { return 0; }
extern "C" int putc(int c, FILE *f) { return c; }
void tokens_reset(AsmContext *asm_context);
#include "core/MemoryPool.cpp"
#include "core/Memory.cpp"
#include "core/Symbols.cpp"
#include "core/AsmContext.cpp"
Macros::Macros() : memory_pool { nullptr }, locked { 0 }, stack_ptr { 0 } { memset(stack, 0, sizeof(stack)); }
Macros::~Macros() { reset(); }
void Macros::reset() { memory_pool_free(memory_pool); memory_pool = nullptr; stack_ptr = 0; }
void tokens_reset(AsmContext *asm_context)
{
  asm_context->tokens.token_buffer.ptr = 0; asm_context->tokens.line = 1; asm_context->tokens.pushback[0] = 0; asm_context->tokens.pushback2[0] = 0;
  asm_context->tokens.unget[0] = 0; asm_context->tokens.unget_ptr = 0; asm_context->tokens.unget_stack_ptr = 0; asm_context->tokens.unget_stack[0] = 0;
}
extern "C" void h_ctor()
{
  AsmContext a;
  AsmContext b;
  a.init(); b.init();
  __CPROVER_assert(a.address == b.address && a.segment == b.segment && a.pass == b.pass && a.error_count == b.error_count && a.ifdef_count == b.ifdef_count, "counters equal");
  __CPROVER_assert(a.cpu_type == b.cpu_type && a.bytes_per_address == b.bytes_per_address && a.flags == b.flags && a.extra_context == b.extra_context, "cpu fields equal");
  __CPROVER_assert(a.is_dollar_hex == b.is_dollar_hex && a.optimize == b.optimize && a.in_repeat == b.in_repeat && a.error == b.error && a.msp430_cpu4 == b.msp430_cpu4, "flags equal");
  __CPROVER_assert(a.memory.low_address == b.memory.low_address && a.memory.high_address == b.memory.high_address && a.memory.endian == b.memory.endian && a.memory.entry_point == b.memory.entry_point && a.memory.pages == b.memory.pages, "memory header equal");
  __CPROVER_assert(a.segment == 0 && a.linker == 0 && a.list == 0, "defined values");
  int i = nondet_int(); __CPROVER_assume(i >= 0 && i < PARAM_STACK_LEN);
  __CPROVER_assert(a.def_param_stack_data[i] == b.def_param_stack_data[i] && a.include_path[i] == b.include_path[i], "buffers equal");
}
