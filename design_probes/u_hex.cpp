#include <stdio.h>
#include <stdarg.h>
#include "core/Memory.h"
extern "C" {
  // ghost model of the memory image projected on one witness address W
  unsigned g_low, g_high; unsigned g_W; int g_W_written; unsigned char g_W_val;
  // ghost model of the output: records decoded from what fprintf was asked to print
  unsigned g_seg;            // current extended linear address according to the file so far
  int g_w_emitted; int g_w_pre; unsigned char g_w_byte_pre;           // how many data records covered W
  unsigned char g_w_byte;    // the byte the record carried for W
  int g_bad_checksum;        // any record with wrong checksum
  // current record being printed
  int g_rec_len, g_rec_addr, g_rec_sum, g_rec_n, g_in_rec;
  int nondet_int(); unsigned char nondet_uchar(); unsigned nondet_uint();
}
Memory::Memory() {} Memory::~Memory() {}
int Memory::read_debug(uint32_t address) { if (address == g_W) return g_W_written ? 5 : -1; int r = nondet_int(); return r; }
uint8_t Memory::read8(uint32_t address) { if (address == g_W) return g_W_val; return nondet_uchar(); }
int vf_printf(FILE *out, const char *fmt, long A0 = 0, long A1 = 0, long A2 = 0)
{
  int ai = 0; long AV[3]; AV[0] = A0; AV[1] = A1; AV[2] = A2;
  if (fmt[0] == ':' && fmt[1] == '0' && fmt[2] == '2' && fmt[3] == '0') // ":02000004%04X%02X\n"
  {
    unsigned hi = ((unsigned)AV[ai++]); unsigned ck = ((unsigned)AV[ai++]);
    g_seg = hi << 16;
    if (((2 + 0 + 0 + 4 + (hi >> 8) + (hi & 0xff) + ck) & 0xff) != 0) g_bad_checksum = 1;
  }
  else if (fmt[0] == ':') // ":%02X%04X00"
  {
    g_w_pre = g_w_emitted; g_w_byte_pre = g_w_byte; g_rec_len = ((int)AV[ai++]); g_rec_addr = ((unsigned)AV[ai++]); g_rec_sum = g_rec_len + (g_rec_addr >> 8) + (g_rec_addr & 0xff); g_rec_n = 0; g_in_rec = 1;
  }
  else if (fmt[4] == 0) // "%02X" data byte
  {
    unsigned b = ((unsigned)AV[ai++]);
    if (g_seg + g_rec_addr + g_rec_n == g_W) { g_w_emitted++; g_w_byte = b; }
    g_rec_sum += b; g_rec_n++;
  }
  else // "%02X\n" checksum
  {
    unsigned ck = ((unsigned)AV[ai++]);
    if (((g_rec_sum + ck) & 0xff) != 0 || g_rec_n != g_rec_len) g_bad_checksum = 1;
    g_in_rec = 0;
  }
  
  return 0;
}


extern "C" int fputs(const char *s, FILE *out) { return 0; }
#define fprintf vf_printf
#include "fileio/write_hex.cpp"
#undef fprintf
extern "C" void h_write_hex()
{
  Memory m;
  m.low_address = nondet_uint(); m.high_address = nondet_uint();
  __CPROVER_assume(m.low_address <= m.high_address && m.high_address < 0xffffffff);
  g_low = m.low_address; g_high = m.high_address; g_W = nondet_uint(); g_W_written = nondet_int() & 1; g_W_val = nondet_uchar();
  g_seg = 0; g_w_emitted = 0; g_bad_checksum = 0; g_in_rec = 0;
  write_hex(&m, (FILE *)0);
  __CPROVER_assert(!g_bad_checksum, "all records well formed");
  if (g_W >= m.low_address && g_W <= m.high_address && g_W_written)
    __CPROVER_assert(g_w_emitted == 1 && g_w_byte == g_W_val, "written byte appears exactly once with its value");
  else
    __CPROVER_assert(g_w_emitted == 0, "no other byte appears");
}
