#!/bin/sh
# usage: gen_sim.sh <file-stem> <ClassName> [extra includes...]
stem=$1; cls=$2; shift 2
f=u_simg_$stem.cpp
cat > $f <<EOT
#include <stdio.h>
#include <stdlib.h>
#include <string.h>
#include <stdint.h>
#include "core/Memory.h"
#include "simulate/Simulate.h"
extern "C" {
#define LM 24
unsigned g_la[LM]; unsigned char g_lv[LM]; int g_ln;
unsigned char nondet_uchar(); unsigned nondet_uint(); int nondet_int();
int signal_stub;
}
Memory::Memory() {} Memory::~Memory() {}
static int lm_find(unsigned a) { for (int i = 0; i < LM; i++) { if (i < g_ln && g_la[i] == a) return i; } return -1; }
uint8_t Memory::read8(uint32_t a) { int i = lm_find(a); if (i >= 0) return g_lv[i]; __CPROVER_assert(g_ln < LM, "lazy memory table full"); g_la[g_ln] = a; g_lv[g_ln] = nondet_uchar(); return g_lv[g_ln++]; }
void Memory::write8(uint32_t a, uint8_t v) { int i = lm_find(a); if (i < 0) { __CPROVER_assert(g_ln < LM, "lazy memory table full"); i = g_ln++; g_la[i] = a; } g_lv[i] = v; }
uint16_t Memory::read16(uint32_t a) { return endian == 0 ? (read8(a) | (read8(a + 1) << 8)) : ((read8(a) << 8) | read8(a + 1)); }
uint32_t Memory::read32(uint32_t a) { return endian == 0 ? (read8(a) | (read8(a + 1) << 8) | (read8(a + 2) << 16) | (read8(a + 3) << 24)) : ((read8(a) << 24) | (read8(a + 1) << 16) | (read8(a + 2) << 8) | read8(a + 3)); }
void Memory::write16(uint32_t a, uint16_t d) { if (endian == 0) { write8(a, d & 0xff); write8(a + 1, d >> 8); } else { write8(a, d >> 8); write8(a + 1, d & 0xff); } }
void Memory::write32(uint32_t a, uint32_t d) { if (endian == 0) { write8(a, d & 0xff); write8(a + 1, (d >> 8) & 0xff); write8(a + 2, (d >> 16) & 0xff); write8(a + 3, d >> 24); } else { write8(a, d >> 24); write8(a + 1, (d >> 16) & 0xff); write8(a + 2, (d >> 8) & 0xff); write8(a + 3, d & 0xff); } }
int Memory::read_debug(uint32_t a) { return nondet_int(); }
extern "C" void exit(int c) { __CPROVER_assume(0); }
extern "C" int usleep(unsigned u) { return 0; }
extern "C" int getc(FILE *f) { return nondet_int(); }
extern "C" int putc(int c, FILE *f) { return c; }
extern "C" int fclose(FILE *f) { return 0; }
typedef void (*sh_t)(int);
extern "C" sh_t signal(int s, sh_t h) { return 0; }
#include "simulate/Simulate.cpp"
EOT
for x in "$@"; do echo "#include \"$x\"" >> $f; done
cat >> $f <<EOT
#include "simulate/$stem.cpp"
extern "C" void h_sim()
{
  Memory m; m.endian = nondet_int() & 1;
  $cls sim(&m);
  __CPROVER_havoc_object(&sim);
  sim.memory = &m; sim.show = false; sim.auto_run = nondet_int() & 1; sim.step_mode = false; sim.do_clear = false; sim.serial_in = 0; sim.serial_out = 0; sim.break_io = 0xffffffff; sim.serial_address = 0xffffffff; sim.usec = 1;
  sim.cycle_count = 0; sim.nested_call_count = 0;
  g_ln = 0;
  int r = sim.run(-1, 1);
  __CPROVER_assert(r == 0 || r == -1, "step returns executed or illegal");
}
EOT
goto-cc -c st_fmt.c -o st_fmt_s$stem.gb > /dev/null 2>&1
goto-cc -x c++ -Dprivate=public -Dprotected=public -Isrc -I. -c $f -o simga_$stem.gb > simg_$stem.cc.log 2>&1 && goto-cc simga_$stem.gb st_fmt_s$stem.gb --function h_sim -o simg_$stem.gb >> simg_$stem.cc.log 2>&1 || { echo "$stem: COMPILE FAIL $(grep -m1 -E 'error|Invariant|Condition' simg_$stem.cc.log | cut -c1-140)"; exit 0; }
goto-instrument --drop-unused-functions simg_$stem.gb simg2_$stem.gb > /dev/null 2>&1
start=$(date +%s)
timeout 300 cbmc simg2_$stem.gb --no-standard-checks --bounds-check --pointer-check --div-by-zero-check --unwind ${UNW:-20} --unwinding-assertions --max-field-sensitivity-array-size 1024 --object-bits 12 > simg_$stem.log 2>&1
rc=$?
end=$(date +%s)
echo "$stem: rc=$rc $((end-start))s $(grep -E '^\*\* ' simg_$stem.log | tail -1) $(grep -E 'FAILURE$' simg_$stem.log | grep -v pointer_deref | cut -c1-120 | head -5 | tr '\n' ';') $(grep -m1 -E 'Invariant check|Condition:' simg_$stem.log)"
