#include "core/AsmContext.h"
#include "core/eval_expression.h"
#include "asm/common.h"
extern "C" {
  // token script
  struct Tok { int type; char s[8]; int is_expr; int value; int ok; };
  struct Tok g_script[16]; int g_len; int g_pos;
  // write log
  unsigned g_wa[16]; unsigned char g_wd[16]; int g_wn; unsigned char g_flag; unsigned g_flag_addr;
  int g_errors;
  int nondet_int(); char nondet_char();
}
Memory::Memory() : pages{nullptr}, low_address{0xffffffff}, high_address{0}, entry_point{0xffffffff}, endian{ENDIAN_LITTLE} {}
Memory::~Memory() {}
Symbols::Symbols() {} Symbols::~Symbols() {} Macros::Macros() {} Macros::~Macros() {} AsmContext::AsmContext() {} AsmContext::~AsmContext() {}
void Memory::write(uint32_t address, uint8_t data, int line)
{
  __CPROVER_assert(g_wn < 16, "log full"); g_wa[g_wn] = address; g_wd[g_wn] = data; g_wn++; if (address == g_flag_addr) g_flag = data;
}
void Memory::write8(uint32_t address, uint8_t data) { if (address == g_flag_addr) g_flag = data; }
uint8_t Memory::read8(uint32_t address) { __CPROVER_assert(address == g_flag_addr, "reads only the flag byte of the current instruction"); return g_flag; }
int tokens_get(AsmContext *asm_context, char *token, int len)
{
  if (g_pos >= g_len) { token[0] = 0; return TOKEN_EOF; }
  for (int i = 0; i < 8; i++) token[i] = g_script[g_pos].s[i];
  return g_script[g_pos++].type;
}
void tokens_push(AsmContext *asm_context, const char *token, int token_type) { __CPROVER_assert(g_pos > 0, "push"); g_pos--; }
int ignore_operand(AsmContext *asm_context)
{
  while (g_pos < g_len && !(g_script[g_pos].type == TOKEN_EOL || (g_script[g_pos].s[0] == ',' && g_script[g_pos].s[1] == 0))) g_pos++;
  return 0;
}
int eval_expression(AsmContext *asm_context, int *num)
{
  if (g_pos >= g_len || !g_script[g_pos].is_expr) { *num = 0; return -1; }
  if (!g_script[g_pos].ok) { *num = 0; return -1; }
  *num = g_script[g_pos].value; g_pos++;
  return 0;
}
int expect_token(AsmContext *asm_context, char ch) { return -1; }
void lower_copy(char *d, const char *s) { while (1) { char c = *s; if (c >= 'A' && c <= 'Z') c += 32; *d = c; if (*s == 0) break; d++; s++; } }
void print_error(AsmContext *asm_context, const char *s) { g_errors++; }
void print_error_unexp(AsmContext *asm_context, const char *s) { g_errors++; }
void print_error_opcount(AsmContext *asm_context, const char *s) { g_errors++; }
void print_error_illegal_operands(AsmContext *asm_context, const char *s) { g_errors++; }
void print_error_illegal_expression(AsmContext *asm_context, const char *s) { g_errors++; }
void print_error_unknown_instr(AsmContext *asm_context, const char *s) { g_errors++; }
void print_error_range(AsmContext *asm_context, const char *s, int64_t r0, int64_t r1) { g_errors++; }
void print_error_align(AsmContext *asm_context, int align) { g_errors++; }
void print_error_internal(AsmContext *asm_context, const char *filename, int line) { g_errors++; }
