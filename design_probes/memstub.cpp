#include "core/Memory.h"
extern "C" { unsigned char g_ram[65536*2]; unsigned g_max_read; unsigned g_base; }
Memory::Memory() : pages{nullptr}, low_address{0xffffffff}, high_address{0}, entry_point{0xffffffff}, endian{ENDIAN_LITTLE} {}
Memory::~Memory() {}
uint8_t Memory::read8(uint32_t address) { unsigned off = address - g_base; if (off > g_max_read) g_max_read = off; return g_ram[address & 0x1ffff]; }
