#include "core/Memory.h"
#include "disasm/msp430.h"
extern "C" { extern unsigned char g_ram[]; extern unsigned g_max_read; extern unsigned g_base; unsigned nondet_uint();
void h_disasm()
{
  Memory m;
  char instruction[128];
  int cmin, cmax;
  unsigned address = nondet_uint();
  __CPROVER_assume(address < 0x10000 && (address & 1) == 0);
  g_base = address; g_max_read = 0;
  int count = disasm_msp430(&m, address, instruction, sizeof(instruction), 0, &cmin, &cmax);
  __CPROVER_assert(count >= 2 && count <= 8 && (count & 1) == 0, "length in range");
  __CPROVER_assert(g_max_read < (unsigned)count, "reads only own bytes");
  int nul = 0; for (int i = 0; i < 128; i++) if (instruction[i] == 0) nul = 1;
  __CPROVER_assert(nul, "NUL terminated inside buffer");
}
}
