#include "core/AsmContext.h"
#include "core/add_bin.h"
extern "C" { extern unsigned g_wa[8]; extern unsigned char g_wd[8]; extern int g_wn; unsigned short nondet_ushort(); int nondet_int();
void h_add_bin16()
{
  AsmContext *ctx = (AsmContext *)malloc(sizeof(AsmContext));
  __CPROVER_assume(ctx->pass == 1 || ctx->pass == 2);
  __CPROVER_assume(ctx->memory.endian == 0 || ctx->memory.endian == 1);
  __CPROVER_assume(ctx->address < 0x7ffffff0);
  int a0 = ctx->address;
  unsigned short b = nondet_ushort();
  int flags = nondet_int();
  g_wn = 0;
  add_bin16(ctx, b, flags);
  __CPROVER_assert(ctx->address == a0 + 2, "address advances by 2");
  if (!(ctx->pass == 1 && ctx->pass_1_write_disable))
  {
    __CPROVER_assert(g_wn == 2 && g_wa[0] == (unsigned)a0 && g_wa[1] == (unsigned)a0 + 1, "two bytes at a0,a0+1");
    unsigned lo = ctx->memory.endian == 0 ? g_wd[0] : g_wd[1];
    unsigned hi = ctx->memory.endian == 0 ? g_wd[1] : g_wd[0];
    __CPROVER_assert(((hi << 8) | lo) == b, "bytes in selected order");
  } else __CPROVER_assert(g_wn == 0, "nothing written");
}
}
