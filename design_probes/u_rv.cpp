#include "core/AsmContext.h"
#include "core/eval_expression.h"
#include "asm/common.h"
extern "C" {
  int g_type[16]; char g_s[16][8]; int g_isx[16]; int g_val[16]; int g_ok[16]; int g_len; int g_pos;
  unsigned g_wa[16]; unsigned char g_wd[16]; int g_wn; unsigned char g_flag; int g_errors;
  int nondet_int(); unsigned nondet_uint();
}
Memory::Memory() {} Memory::~Memory() {}
Symbols::Symbols() {} Symbols::~Symbols() {} Macros::Macros() {} Macros::~Macros() {} AsmContext::AsmContext() {} AsmContext::~AsmContext() {}
void Memory::write(uint32_t address, uint8_t data, int line) { __CPROVER_assert(g_wn < 16, "log full"); g_wa[g_wn] = address; g_wd[g_wn] = data; g_wn++; }
void Memory::write8(uint32_t address, uint8_t data) { g_flag = data; }
uint8_t Memory::read8(uint32_t address) { return g_flag; }
int tokens_get(AsmContext *asm_context, char *token, int len)
{
  if (g_pos >= g_len) { token[0] = 0; return TOKEN_EOF; }
  token[0] = g_s[g_pos][0]; token[1] = g_s[g_pos][1]; token[2] = g_s[g_pos][2]; token[3] = g_s[g_pos][3]; token[4] = 0;
  return g_type[g_pos++];
}
void tokens_push(AsmContext *asm_context, const char *token, int token_type) { __CPROVER_assert(g_pos > 0, "push"); g_pos--; }
int ignore_operand(AsmContext *asm_context) { while (g_pos < g_len && !(g_type[g_pos] == TOKEN_EOL || (g_s[g_pos][0] == ',' && g_s[g_pos][1] == 0))) g_pos++; return 0; }
int eval_expression(AsmContext *asm_context, int *num) { if (g_pos >= g_len || !g_isx[g_pos] || !g_ok[g_pos]) { *num = 0; return -1; } *num = g_val[g_pos]; g_pos++; return 0; }
int eval_expression(AsmContext *asm_context, Var &var) { int n; int r = eval_expression(asm_context, &n); var.set_int((uint64_t)(int64_t)n); return r; }
int expect_token(AsmContext *asm_context, char ch) { char t[TOKENLEN]; tokens_get(asm_context, t, TOKENLEN); if (IS_NOT_TOKEN(t, ch)) { g_errors++; return -1; } return 0; }
int expect_token_s(AsmContext *asm_context, const char *s) { return -1; }
int ignore_line(AsmContext *asm_context) { return 0; }
int ignore_paren_expression(AsmContext *asm_context) { return 0; }
int check_range(AsmContext *asm_context, const char *type, int num, int min, int max) { if (num < min || num > max) { g_errors++; return -1; } return 0; }
int get_reg_number(const char *token, int max) { int num = 0; int i = 0; if (token[0] == 0) return -1; while (token[i] != 0) { if (token[i] < '0' || token[i] > '9') return -1; num = num * 10 + (token[i] - '0'); i++; } if (num > max) return -1; return num; }
void lower_copy(char *d, const char *s) { while (1) { char c = *s; if (c >= 'A' && c <= 'Z') c += 32; *d = c; if (*s == 0) break; d++; s++; } }
void print_error(AsmContext *asm_context, const char *s) { g_errors++; }
void print_error_unexp(AsmContext *asm_context, const char *s) { g_errors++; }
void print_error_opcount(AsmContext *asm_context, const char *s) { g_errors++; }
void print_error_illegal_operands(AsmContext *asm_context, const char *s) { g_errors++; }
void print_error_illegal_expression(AsmContext *asm_context, const char *s) { g_errors++; }
void print_error_illegal_register(AsmContext *asm_context, const char *s) { g_errors++; }
void print_error_unknown_instr(AsmContext *asm_context, const char *s) { g_errors++; }
void print_error_unknown_operand_combo(AsmContext *asm_context, const char *s) { g_errors++; }
void print_error_range(AsmContext *asm_context, const char *s, int64_t r0, int64_t r1) { g_errors++; }
void print_error_align(AsmContext *asm_context, int align) { g_errors++; }
void print_error_internal(AsmContext *asm_context, const char *filename, int line) { g_errors++; }
extern "C" int printf(const char *fmt, ...) { return 0; }
#include "core/add_bin.cpp"
#include "table/riscv.cpp"
#include "asm/riscv.cpp"
extern "C" {
static void tok(int type, const char *s) { int i = 0; for (; s[i] && i < 7; i++) g_s[g_len][i] = s[i]; for (; i < 8; i++) g_s[g_len][i] = 0; g_type[g_len] = type; g_isx[g_len] = 0; g_len++; }
static void tok_xreg(int r) { char b[8] = {0}; b[0] = 'x'; if (r >= 10) { b[1] = '0' + r / 10; b[2] = '0' + r % 10; } else { b[1] = '0' + r; } tok(TOKEN_STRING, b); }
static void tok_expr(int v) { tok(TOKEN_NUMBER, "0"); g_isx[g_len-1] = 1; g_val[g_len-1] = v; g_ok[g_len-1] = 1; }
void h_rv_addi()
{
  AsmContext ctx_obj; AsmContext *ctx = &ctx_obj; ctx->address = nondet_int(); ctx->tokens.line = nondet_int();
  ctx->pass = 2; ctx->cpu_type = CPU_TYPE_RISCV; ctx->memory.endian = 0; ctx->optimize = 0; ctx->pass_1_write_disable = 0; ctx->flags = 0;
  __CPROVER_assume(ctx->address >= 0 && ctx->address < 0x10000000 && (ctx->address & 3) == 0);
  __CPROVER_assume(ctx->tokens.line >= 0 && ctx->tokens.line < 100000);
  g_flag = 0; g_len = 0; g_pos = 0; g_wn = 0; g_errors = 0;
  int rd = nondet_int(), rs = nondet_int(), imm = nondet_int();
  __CPROVER_assume(rd >= 0 && rd < 32 && rs >= 0 && rs < 32);
  tok_xreg(rd); tok(TOKEN_SYMBOL, ","); tok_xreg(rs); tok(TOKEN_SYMBOL, ","); tok_expr(imm); tok(TOKEN_EOL, "\n");
  char instr[TOKENLEN]; instr[0] = 'a'; instr[1] = 'd'; instr[2] = 'd'; instr[3] = 'i'; instr[4] = 0;
  int a0 = ctx->address;
  int r = parse_instruction_riscv(ctx, instr);
  if (imm < -2048 || imm > 2047) __CPROVER_assert(r == -1 && g_wn == 0, "immediate outside 12-bit signed range rejected");
  else
  {
    unsigned w = g_wd[0] | (g_wd[1] << 8) | (g_wd[2] << 16) | ((unsigned)g_wd[3] << 24);
    unsigned want = (((unsigned)imm & 0xfff) << 20) | (rs << 15) | (0 << 12) | (rd << 7) | 0x13;
    __CPROVER_assert(r == 4 && g_wn == 4 && w == want, "addi encoding per RISC-V I-type");
    __CPROVER_assert(ctx->address == a0 + 4, "address advanced by 4");
  }
}
}
