#include "core/AsmContext.h"
#include "asm/msp430.h"
#include "table/msp430.h"
extern "C" {
  struct Tok { int type; char s[8]; int is_expr; int value; int ok; };
  extern struct Tok g_script[16]; extern int g_len; extern int g_pos;
  extern unsigned g_wa[16]; extern unsigned char g_wd[16]; extern int g_wn; extern unsigned char g_flag; extern unsigned g_flag_addr; extern int g_errors;
  int nondet_int(); unsigned nondet_uint();
static void tok(int type, const char *s) { int i = 0; for (; s[i] && i < 7; i++) g_script[g_len].s[i] = s[i]; for (; i < 8; i++) g_script[g_len].s[i] = 0; g_script[g_len].type = type; g_script[g_len].is_expr = 0; g_len++; }
static void tok_reg(int r) { char b[8] = {0}; b[0] = 'r'; if (r >= 10) { b[1] = '1'; b[2] = '0' + (r - 10); } else { b[1] = '0' + r; } tok(TOKEN_STRING, b); }
static void tok_expr(int v) { tok(TOKEN_NUMBER, "0"); g_script[g_len-1].is_expr = 1; g_script[g_len-1].value = v; g_script[g_len-1].ok = 1; }
#ifndef ROW
#define ROW 19
#endif
void h_asm_two_operand()
{
  AsmContext ctx_obj; AsmContext *ctx = &ctx_obj; ctx->address = nondet_int(); ctx->tokens.line = nondet_int();
  ctx->pass = 2; ctx->cpu_type = CPU_TYPE_MSP430; ctx->memory.endian = 0; ctx->optimize = 0; ctx->pass_1_write_disable = 0; ctx->msp430_cpu4 = 0;
  __CPROVER_assume(ctx->address >= 0 && ctx->address < 0x10000 && (ctx->address & 1) == 0);
  __CPROVER_assume(ctx->tokens.line >= 0 && ctx->tokens.line < 100000);
  g_flag = 0; g_len = 0; g_pos = 0; g_wn = 0; g_errors = 0;
  int rs = nondet_int(), rd = nondet_int(), imm = nondet_int(), bw = BW, srcform = SRCFORM;
  __CPROVER_assume(rs >= 4 && rs < 16 && rd >= 4 && rd < 16 && (bw == 0 || bw == 1) && (srcform == 0 || srcform == 1));
  if (bw) { tok(TOKEN_SYMBOL, "."); tok(TOKEN_STRING, "b"); }
  if (srcform == 0) tok_reg(rs); else { tok(TOKEN_POUND, "#"); tok_expr(imm); }
  tok(TOKEN_SYMBOL, ","); tok_reg(rd); tok(TOKEN_EOL, "\n");
  char instr[TOKENLEN]; const char *name = table_msp430[ROW].instr; int i = 0; for (; name[i]; i++) instr[i] = name[i]; instr[i] = 0;
  int a0 = ctx->address;
  int r = parse_instruction_msp430(ctx, instr);
  unsigned op = table_msp430[ROW].opcode;
  if (srcform == 0)
  {
    __CPROVER_assert(r == 2 && g_wn == 2, "reg,reg: one word");
    unsigned w = g_wd[0] | (g_wd[1] << 8);
    __CPROVER_assert(w == (op | (rs << 8) | (bw << 6) | rd), "reg,reg encoding per SLAU144 fig 3-9");
  }
  else
  {
    int lo = bw ? -128 : -32768, hi = bw ? 0xff : 0xffff;
    if (imm < lo || imm > hi) __CPROVER_assert(r == -1 && g_wn == 0, "out-of-range immediate rejected, nothing emitted");
    else
    {
      int v = imm; if (bw && v == 0xff) v = -1; if (!bw && v == 0xffff) v = -1;
      int cg = (v == -1 || v == 0 || v == 1 || v == 2 || v == 4 || v == 8);
      if (cg)
      {
        unsigned sreg = (v == 4 || v == 8) ? 2 : 3; unsigned as = (v == 0) ? 0 : (v == 1) ? 1 : (v == 2 || v == 4) ? 2 : 3;
        unsigned w = g_wd[0] | (g_wd[1] << 8);
        __CPROVER_assert(r == 2 && g_wn == 2 && w == (op | (sreg << 8) | (bw << 6) | (as << 4) | rd), "constant generator encoding");
      }
      else
      {
        unsigned w = g_wd[0] | (g_wd[1] << 8); unsigned x = g_wd[2] | (g_wd[3] << 8);
        __CPROVER_assert(r == 4 && g_wn == 4 && w == (op | (0 << 8) | (bw << 6) | (3 << 4) | rd) && x == ((unsigned)imm & 0xffff), "#imm via @PC+");
      }
    }
  }
  __CPROVER_assert(r == -1 || ctx->address == a0 + r, "address advanced by emitted size");
}

void h_two_pass()
{
  AsmContext ctx_obj; AsmContext *ctx = &ctx_obj; ctx->address = nondet_int(); ctx->tokens.line = nondet_int();
  ctx->cpu_type = CPU_TYPE_MSP430; ctx->memory.endian = 0; ctx->optimize = 0; ctx->pass_1_write_disable = 1; ctx->msp430_cpu4 = 0;
  __CPROVER_assume(ctx->address >= 0 && ctx->address < 0x10000 && (ctx->address & 1) == 0);
  __CPROVER_assume(ctx->tokens.line >= 0 && ctx->tokens.line < 100000);
  int a0 = ctx->address; g_flag_addr = a0;
  int rd = nondet_int(), v1 = nondet_int(), v2 = nondet_int(), known1 = nondet_int() & 1;
  __CPROVER_assume(rd >= 4 && rd < 16);
  if (known1) v2 = v1;
  char instr[TOKENLEN]; const char *name = table_msp430[ROW].instr; int i = 0; for (; name[i]; i++) instr[i] = name[i]; instr[i] = 0;
  // pass 1
  g_flag = 0; g_len = 0; g_pos = 0; g_wn = 0; g_errors = 0; ctx->pass = 1;
  tok(TOKEN_POUND, "#"); tok_expr(v1); g_script[g_len-1].ok = known1; tok(TOKEN_SYMBOL, ","); tok_reg(rd); tok(TOKEN_EOL, "\n");
  int r1 = parse_instruction_msp430(ctx, instr);
  int size1 = ctx->address - a0;
  // pass 2 from the same address, flag byte carried over by the memory stub
  ctx->address = a0; g_len = 0; g_pos = 0; g_wn = 0; g_errors = 0; ctx->pass = 2;
  tok(TOKEN_POUND, "#"); tok_expr(v2); tok(TOKEN_SYMBOL, ","); tok_reg(rd); tok(TOKEN_EOL, "\n");
  int r2 = parse_instruction_msp430(ctx, instr);
  int size2 = ctx->address - a0;
  if (r1 >= 0 && r2 >= 0) __CPROVER_assert(size1 == size2, "pass 1 reserves exactly what pass 2 emits");
  __CPROVER_assert(r1 < 0 || r1 == size1, "pass 1 return value is its size");
}
}
