#include <stdio.h>
#include <stdlib.h>
#include <string.h>
#include <unistd.h>
#include "core/AsmContext.h"
#include "fileio/file.h"
extern "C" {
  int g_pass1_ret, g_pass2_ret, g_link1_ret, g_link2_ret, g_fw_ret;
  int g_n_assemble, g_n_link, g_unlinked_after_write, g_file_written, g_unlinked, g_exit_called, g_exit_code, g_list_open;
  int nondet_int(); char nondet_char();
}
Memory::Memory() {} Memory::~Memory() {}
Symbols::Symbols() {} Symbols::~Symbols() {} Macros::Macros() {} Macros::~Macros() {} AsmContext::AsmContext() { list = 0; quiet_output = 0; memory.low_address = 0; memory.high_address = 0; bytes_per_address = 1; } AsmContext::~AsmContext() {}
void AsmContext::init() {}
void AsmContext::print_info(FILE *out) {}
int AsmContext::link_file(const char *filename) { return -1; }
int AsmContext::assemble() { g_n_assemble++; int r = (g_n_assemble == 1) ? g_pass1_ret : g_pass2_ret; __CPROVER_assert(g_n_assemble == 1 || (g_pass1_ret == 0 && g_link1_ret == 0), "pass 2 only after a clean pass 1"); __CPROVER_assert(pass == g_n_assemble, "pass number"); return r; }
int AsmContext::link() { g_n_link++; return (g_n_link == 1) ? g_link1_ret : g_link2_ret; }
int Memory::read_debug(uint32_t address) { return nondet_int(); }
uint8_t Memory::read8(uint32_t address) { return nondet_char(); }
int tokens_open_file(AsmContext *asm_context, const char *filename) { asm_context->tokens.in = (FILE *)1; return nondet_int() ? 0 : -1; }
int include_add_path(AsmContext *asm_context, const char *paths) { return 0; }
int file_write(const char *filename, AsmContext *asm_context, int file_type) { if (g_fw_ret == 0) g_file_written = 1; return g_fw_ret; }
extern "C" {
int puts(const char *s) { return 0; }
int printf(const char *fmt, ...) { return 0; }
int fprintf(FILE *f, const char *fmt, ...) { return 0; }
int putc(int c, FILE *f) { return c; }
FILE *fopen(const char *name, const char *mode) { g_list_open = 1; return nondet_int() ? (FILE *)2 : (FILE *)0; }
int fclose(FILE *f) { return 0; }
int unlink(const char *name) { g_unlinked = 1; return 0; }
void exit(int code) { g_exit_called = 1; g_exit_code = code; __CPROVER_assume(0); }
}
#define main naken_main
#include "main/naken_asm.cpp"
#undef main
extern "C" void h_main()
{
  char a1[8], a2[8], a3[8], a4[8], a0[2]; a0[0] = 110; a0[1] = 0;
  a1[7] = 0; a2[7] = 0; a3[7] = 0; a4[7] = 0;
  char *argv[6]; argv[0] = a0; argv[1] = a1; argv[2] = a2; argv[3] = a3; argv[4] = a4; argv[5] = 0;
  int argc = nondet_int(); __CPROVER_assume(argc >= 2 && argc <= 5);
  g_pass1_ret = nondet_int(); g_pass2_ret = nondet_int(); g_link1_ret = nondet_int(); g_link2_ret = nondet_int(); g_fw_ret = nondet_int();
  __CPROVER_assume(g_fw_ret == 0 || g_fw_ret == -1);
  g_n_assemble = 0; g_n_link = 0; g_unlinked = 0; g_file_written = 0; g_exit_called = 0;
  int r = naken_main(argc, argv);
  int clean = g_pass1_ret == 0 && g_link1_ret == 0 && g_pass2_ret == 0 && g_link2_ret == 0 && g_fw_ret == 0;
  __CPROVER_assert((r == 0) == clean, "exit status 0 iff every phase succeeded");
  __CPROVER_assert(clean || g_unlinked, "output path unlinked on any failure");
  __CPROVER_assert(!clean || (g_file_written && !g_unlinked), "complete file left on success");
}
