#include <stdio.h>
#include <stdarg.h>
extern unsigned g_W; extern unsigned g_seg; extern int g_w_emitted; extern unsigned char g_w_byte; extern int g_bad_checksum; extern int g_rec_len, g_rec_addr, g_rec_sum, g_rec_n, g_in_rec;
// fprintf stub: understands exactly the formats write_hex uses
int fprintf(FILE *out, const char *fmt, ...)
{
  va_list ap; va_start(ap, fmt);
  if (fmt[0] == ':' && fmt[1] == '0' && fmt[2] == '2' && fmt[3] == '0') // ":02000004%04X%02X\n"
  {
    unsigned hi = va_arg(ap, unsigned); unsigned ck = va_arg(ap, unsigned);
    g_seg = hi << 16;
    if (((2 + 0 + 0 + 4 + (hi >> 8) + (hi & 0xff) + ck) & 0xff) != 0) g_bad_checksum = 1;
  }
  else if (fmt[0] == ':') // ":%02X%04X00"
  {
    g_rec_len = va_arg(ap, int); g_rec_addr = va_arg(ap, unsigned); g_rec_sum = g_rec_len + (g_rec_addr >> 8) + (g_rec_addr & 0xff); g_rec_n = 0; g_in_rec = 1;
  }
  else if (fmt[4] == 0) // "%02X" data byte
  {
    unsigned b = va_arg(ap, unsigned);
    if (g_seg + g_rec_addr + g_rec_n == g_W) { g_w_emitted++; g_w_byte = b; }
    g_rec_sum += b; g_rec_n++;
  }
  else // "%02X\n" checksum
  {
    unsigned ck = va_arg(ap, unsigned);
    if (((g_rec_sum + ck) & 0xff) != 0 || g_rec_n != g_rec_len) g_bad_checksum = 1;
    g_in_rec = 0;
  }
  va_end(ap);
  return 0;
}
int fputs(const char *s, FILE *out) { return 0; }
