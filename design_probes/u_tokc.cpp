#include "core/AsmContext.h"
extern "C" { int g_errors; int g_nchars; int g_len; int *g_p_unget_ptr; char *g_p_unget; int *g_p_line; int *g_p_errcnt; int nondet_int(); char nondet_char(); }
Memory::Memory() {} Memory::~Memory() {}
Symbols::Symbols() {} Symbols::~Symbols() {} Macros::Macros() {} Macros::~Macros() {} AsmContext::AsmContext() {} AsmContext::~AsmContext() {}
int macros_get_char(AsmContext *asm_context) { return CHAR_EOF; }
char *macros_lookup(Macros *macros, char *name, int *param_count) { return 0; }
int macros_push_define(Macros *macros, char *define) { return 0; }
char *macros_expand_params(AsmContext *asm_context, char *define, int param_count) { return 0; }
int Linker::search_code_from_symbol(const char *symbol) { return 0; }
int Symbols::lookup(const char *name, uint32_t *address) { *address = 0; return -1; }
void print_error(AsmContext *asm_context, const char *s) { g_errors++; }
void print_error_internal(AsmContext *asm_context, const char *filename, int line) { g_errors++; }
extern "C" void exit(int c) { __CPROVER_assume(0); }
extern "C" int getc(FILE *f) { g_nchars++; __CPROVER_assume(g_nchars < (1 << 28)); int c = nondet_int(); __CPROVER_assume(c >= -1 && c <= 255); return c; }
extern "C" int putc(int c, FILE *f) { return c; }
static int vs_snprintf(char *buf, size_t n) { __CPROVER_assert(n > 0 && n <= __CPROVER_OBJECT_SIZE(buf) - __CPROVER_POINTER_OFFSET(buf), "snprintf room"); buf[0] = '1'; buf[1] = 0; return 1; }
#define snprintf(b, n, ...) vs_snprintf(b, n)
int tokens_get_rec(AsmContext *asm_context, char *token, int len) { token[0] = 0; return nondet_int(); }
#include "core/tokens.cpp"
#undef snprintf
extern "C" void h_tokens_get()
{
  AsmContext ctx;
  ctx.tokens.in = (FILE *)1; ctx.tokens.token_buffer.code = 0; ctx.list = 0; ctx.write_list_file = 0; ctx.linker = 0; ctx.pass = 1; ctx.ignore_symbols = 0; ctx.parsing_ifdef = 0;
  ctx.address = 0; ctx.bytes_per_address = 1; ctx.error_count = 0;
  ctx.is_dollar_hex = nondet_int() & 1; ctx.strings_have_dots = nondet_int() & 1; ctx.strings_have_slashes = nondet_int() & 1; ctx.can_tick_end_string = nondet_int() & 1; ctx.numbers_dont_have_dots = nondet_int() & 1; ctx.ignore_number_postfix = nondet_int() & 1;
  ctx.tokens.line = 1; ctx.tokens.pushback[0] = 0; ctx.tokens.pushback2[0] = 0; ctx.tokens.unget[0] = 0; ctx.tokens.unget_ptr = 0; ctx.tokens.unget_stack_ptr = 0; ctx.tokens.unget_stack[0] = 0;
  g_p_unget_ptr = &ctx.tokens.unget_ptr; g_p_unget = ctx.tokens.unget; g_p_line = &ctx.tokens.line; g_p_errcnt = &ctx.error_count; g_nchars = 0; g_len = TOKENLEN;
  char token[TOKENLEN];
  int t = tokens_get(&ctx, token, TOKENLEN);
  __CPROVER_assert(ctx.tokens.unget_ptr >= 0 && ctx.tokens.unget_ptr <= 2, "unget index stays small");
}
