#include "core/AsmContext.h"
#include "core/eval_expression.h"
extern "C" {
  int g_type[16]; char g_c0[16]; char g_c1[16]; long long g_val[16]; int g_len; int g_pos; long long g_cur; int g_errors;
  int nondet_int(); long long nondet_ll(); unsigned nondet_uint();
}
Memory::Memory() {} Memory::~Memory() {}
Symbols::Symbols() {} Symbols::~Symbols() {} Macros::Macros() {} Macros::~Macros() {} AsmContext::AsmContext() {} AsmContext::~AsmContext() {}
int tokens_get(AsmContext *asm_context, char *token, int len)
{
  if (g_pos >= g_len) { token[0] = 0; return TOKEN_EOF; }
  token[0] = g_c0[g_pos]; token[1] = g_c1[g_pos]; token[2] = 0;
  g_cur = g_val[g_pos];
  return g_type[g_pos++];
}
void tokens_push(AsmContext *asm_context, const char *token, int token_type) { __CPROVER_assert(g_pos > 0, "push"); if (token_type != TOKEN_EOF) g_pos--; }
int tokens_escape_char(AsmContext *asm_context, uint8_t *s) { return 0; }
extern "C" long long atoll(const char *s) { return g_cur; }
extern "C" double atof(const char *s) { return 0.0; }
extern "C" int printf(const char *fmt, ...) { return 0; }
void print_error(AsmContext *asm_context, const char *s) { g_errors++; }
void print_error_unexp(AsmContext *asm_context, const char *s) { g_errors++; }
#include "core/eval_expression.cpp"
#include "core/Operator.cpp"
#include "core/Var.cpp"
extern "C" {
static void tok(int type, const char *s, long long v) { g_c0[g_len] = s[0]; g_c1[g_len] = s[0] ? s[1] : 0; g_type[g_len] = type; g_val[g_len] = v; g_len++; }
static const char *opstr(int o) { switch (o) { case 0: return "*"; case 1: return "+"; case 2: return "-"; case 3: return "<<"; case 4: return ">>"; case 5: return "&"; case 6: return "^"; default: return "|"; } }
static int prec(int o) { switch (o) { case 0: return 0; case 1: case 2: return 1; case 3: case 4: return 2; case 5: return 3; case 6: return 4; default: return 5; } }
static long long apply(int o, long long a, long long b) { switch (o) { case 0: return (long long)((unsigned long long)a * (unsigned long long)b); case 1: return (long long)((unsigned long long)a + (unsigned long long)b); case 2: return (long long)((unsigned long long)a - (unsigned long long)b); case 3: return (long long)((unsigned long long)a << (b & 63)); case 4: return a >> (b & 63); case 5: return a & b; case 6: return a ^ b; default: return a | b; } }
#ifndef NOPS
#define NOPS 3
#endif
void h_eval()
{
  AsmContext ctx; ctx.pass = 2;
  long long v[NOPS + 1]; int o[NOPS];
  g_len = 0; g_pos = 0; g_errors = 0;
  for (int i = 0; i <= NOPS; i++) { v[i] = nondet_ll(); __CPROVER_assume(v[i] >= 0); }
  for (int i = 0; i < NOPS; i++) { o[i] = (i == 0) ? O0 : (i == 1) ? O1 : O2; if (o[i] == 0) __CPROVER_assume(v[i] < 16 && v[i+1] < 16); if (o[i] == 3 || o[i] == 4) __CPROVER_assume(v[i + 1] < 64); }
  for (int i = 0; i <= NOPS; i++) { tok(TOKEN_NUMBER, "1", v[i]); if (i < NOPS) tok(TOKEN_SYMBOL, opstr(o[i]), 0); }
  tok(TOKEN_EOL, "\n", 0);
  // reference: repeatedly reduce the tightest-binding, leftmost operator
  long long rv[NOPS + 1]; int ro[NOPS]; int n = NOPS;
  for (int i = 0; i <= NOPS; i++) rv[i] = v[i]; for (int i = 0; i < NOPS; i++) ro[i] = o[i];
  for (int step = 0; step < NOPS; step++)
  {
    int best = 0; for (int i = 1; i < NOPS; i++) if (i < n && prec(ro[i]) < prec(ro[best])) best = i;
    rv[best] = apply(ro[best], rv[best], rv[best + 1]);
    for (int i = best; i < NOPS - 1; i++) { ro[i] = ro[i + 1]; rv[i + 1] = rv[i + 2]; }
    n--;
  }
  Var answer;
  int r = eval_expression(&ctx, answer);
  __CPROVER_assert(r == 0, "well-formed expression accepted");
  __CPROVER_assert(answer.get_int64() == rv[0], "value equals precedence-respecting evaluation");
}
}
extern "C" void h_dbg()
{
  g_len = 0; g_pos = 0;
  long long v0 = nondet_ll();
  tok(TOKEN_NUMBER, "1", v0); tok(TOKEN_SYMBOL, opstr(7), 0);
  char token[512]; AsmContext ctx;
  int t = tokens_get(&ctx, token, 512);
  __CPROVER_assert(t == TOKEN_NUMBER, "type concrete");
  t = tokens_get(&ctx, token, 512);
  __CPROVER_assert(IS_TOKEN(token, '|'), "char concrete");
}
