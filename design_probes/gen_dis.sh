#!/bin/sh
# usage: gen_dis.sh <cpu> <unit> <maxlen> [extra table/cpp files...]
cpu=$1; unit=$2; maxlen=$3; shift 3
f=u_dis_$cpu.cpp
cat > $f <<EOT
#include <stdio.h>
#include <stdlib.h>
#include <string.h>
#include <stdint.h>
#include "core/Memory.h"
extern "C" {
#define LM 24
unsigned g_la[LM]; unsigned char g_lv[LM]; int g_ln; unsigned g_base; unsigned g_max_off; int g_neg;
unsigned char nondet_uchar(); unsigned nondet_uint(); int nondet_int();
}
Memory::Memory() {} Memory::~Memory() {}
unsigned char g_win[16];
uint8_t Memory::read8(uint32_t a)
{
  unsigned off = a - g_base;
  if (off >= 16) { g_neg = 1; return nondet_uchar(); }
  if (off > g_max_off) g_max_off = off;
  return g_win[off];
}
uint16_t Memory::read16(uint32_t a) { return endian == 0 ? (read8(a) | (read8(a + 1) << 8)) : ((read8(a) << 8) | read8(a + 1)); }
uint32_t Memory::read32(uint32_t a) { return endian == 0 ? (read8(a) | (read8(a + 1) << 8) | (read8(a + 2) << 16) | (read8(a + 3) << 24)) : ((read8(a) << 24) | (read8(a + 1) << 16) | (read8(a + 2) << 8) | read8(a + 3)); }
int Memory::read_debug(uint32_t a) { return nondet_int(); }
EOT
for x in "$@"; do echo "#include \"$x\"" >> $f; done
cat >> $f <<EOT
#include "disasm/$cpu.cpp"
extern "C" void h_dis()
{
  Memory m; m.endian = nondet_int() & 1;
  char instruction[128]; int cmin, cmax;
  unsigned address = nondet_uint(); __CPROVER_assume(address < 0x7fff0000u && (address % $unit) == 0);
  int flags = nondet_int();
  g_base = address; g_max_off = 0; g_ln = 0; g_neg = 0;
  int count = disasm_$cpu(&m, address, instruction, sizeof(instruction), flags, &cmin, &cmax);
  __CPROVER_assert(count >= $unit && count <= $maxlen && (count % $unit) == 0, "length in range");
  __CPROVER_assert(!g_neg && g_max_off < (unsigned)count, "reads only its own bytes");
  int nul = 0; for (int i = 0; i < 128; i++) if (instruction[i] == 0) nul = 1;
  __CPROVER_assert(nul, "NUL terminated inside buffer");
}
EOT
goto-cc -c st_fmt.c -o st_fmt_$cpu.gb > /dev/null 2>&1; goto-cc -x c++ -Dprivate=public -Dprotected=public -Isrc -I. -c $f -o disa_$cpu.gb > dis_$cpu.cc.log 2>&1 && goto-cc disa_$cpu.gb st_fmt_$cpu.gb --function h_dis -o dis_$cpu.gb >> dis_$cpu.cc.log 2>&1 || { echo "$cpu: COMPILE FAIL $(grep -m1 error dis_$cpu.cc.log | cut -c1-120)"; exit 0; }
goto-instrument --drop-unused-functions dis_$cpu.gb dis2_$cpu.gb > /dev/null 2>&1
start=$(date +%s)
timeout 300 cbmc dis2_$cpu.gb --no-standard-checks --bounds-check --pointer-check --unwind ${UNW:-140} --unwinding-assertions --max-field-sensitivity-array-size 1024 --object-bits 12 > dis_$cpu.log 2>&1
rc=$?
end=$(date +%s)
echo "$cpu: rc=$rc $((end-start))s $(grep -E '^\*\* ' dis_$cpu.log) $(grep -E 'FAILURE$' dis_$cpu.log | grep -v pointer_deref | cut -c1-110 | head -4 | tr '\n' ';') $(grep -m1 -E 'Invariant check|Condition:' dis_$cpu.log)"
