#include "core/AsmContext.h"
#include "core/directives_data.h"
extern "C" {
extern int g_a0, g_K, g_j, g_ncalls, g_ntok, g_hits; extern int *g_p_address; extern int *g_p_endian; extern int *g_p_data_count; extern unsigned char g_hit_data; extern int g_hit_line; extern int g_kval;
int nondet_int();
void h_parse_dc16()
{
  AsmContext *ctx = (AsmContext *)malloc(sizeof(AsmContext)); __CPROVER_assume(ctx != NULL);
  __CPROVER_assume(ctx->pass == 1 || ctx->pass == 2);
  __CPROVER_assume(ctx->memory.endian == 0 || ctx->memory.endian == 1);
  __CPROVER_assume(ctx->address >= 0 && ctx->address < (1 << 30));
  __CPROVER_assume(ctx->data_count >= 0 && ctx->data_count < (1 << 30));
  g_a0 = ctx->address; g_K = nondet_int(); g_j = nondet_int();
  __CPROVER_assume(g_K >= 0 && g_K < (1 << 28) && (g_j == 0 || g_j == 1));
  g_ncalls = 0; g_ntok = 0; g_hits = 0; g_p_address = &ctx->address; g_p_endian = &ctx->memory.endian; g_p_data_count = &ctx->data_count;
  int endian0 = ctx->memory.endian;
  int r = parse_dc16(ctx);
  if (r == 0)
  {
    __CPROVER_assert(ctx->address == g_a0 + 2 * g_ncalls, "address = a0 + 2*values");
    __CPROVER_assert(ctx->memory.endian == endian0, "endian unchanged");
    if (g_ncalls > g_K)
    {
      __CPROVER_assert(g_hits == 1, "witness byte written exactly once");
      __CPROVER_assert(g_kval >= -32768 && g_kval <= 65535, "accepted value in documented range");
      unsigned v = (unsigned short)g_kval;
      unsigned want = ((endian0 == 0) == (g_j == 0)) ? (v & 0xff) : (v >> 8);
      __CPROVER_assert(g_hit_data == want, "witness byte has the right value");
      __CPROVER_assert(g_hit_line == -2, "marked as data");
    }
    else __CPROVER_assert(g_hits == 0, "no write outside emitted range");
  }
}
}
