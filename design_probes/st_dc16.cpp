#include "core/AsmContext.h"
#include "core/eval_expression.h"
#include "asm/common.h"
extern "C" {
  int g_a0, g_K, g_j, g_ncalls, g_ntok, g_hits; int *g_p_address; int *g_p_endian; int *g_p_data_count; unsigned char g_hit_data; int g_hit_line; int g_kval;
  int nondet_int(); char nondet_char();
}
Memory::Memory() : pages{nullptr}, low_address{0xffffffff}, high_address{0}, entry_point{0xffffffff}, endian{ENDIAN_LITTLE} {}
Memory::~Memory() {}
Symbols::Symbols() {} Symbols::~Symbols() {} Macros::Macros() {} Macros::~Macros() {} AsmContext::AsmContext() {} AsmContext::~AsmContext() {}
void Memory::write(uint32_t address, uint8_t data, int line)
{
  if (address == (unsigned)(g_a0 + 2 * g_K + g_j)) { g_hits++; g_hit_data = data; g_hit_line = line; }
}
int tokens_get(AsmContext *asm_context, char *token, int len)
{
  int t = nondet_int();
  __CPROVER_assume(t >= -1 && t <= 11);
  token[0] = nondet_char(); token[1] = nondet_char(); token[2] = 0;
  g_ntok++;
  __CPROVER_assume(g_ntok < (1 << 28));
  return t;
}
void tokens_push(AsmContext *asm_context, const char *token, int token_type) {}
int ignore_operand(AsmContext *asm_context) { return 0; }
void print_error_illegal_expression(AsmContext *asm_context, const char *instr) {}
void print_error_range(AsmContext *asm_context, const char *s, int64_t r0, int64_t r1) {}
void print_error_expecting(AsmContext *asm_context, const char *s, const char *t) {}
int eval_expression(AsmContext *asm_context, int *num)
{
  int v = nondet_int();
  int r = nondet_int();
  __CPROVER_assume(r == 0 || r == -1);
  *num = v;
  if (g_ncalls == g_K) { g_kval = (r == 0) ? v : 0; }
  g_ncalls++;
  return r;
}
