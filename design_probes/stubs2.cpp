#include "core/AsmContext.h"
Symbols::Symbols() {}
Symbols::~Symbols() {}
Macros::Macros() {}
Macros::~Macros() {}
AsmContext::AsmContext() {}
AsmContext::~AsmContext() {}
