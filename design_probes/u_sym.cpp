#include <stdio.h>
#include <stdlib.h>
#include <string.h>
#include "core/Symbols.h"
extern "C" { int nondet_int(); unsigned nondet_uint(); char nondet_char(); }
extern "C" int printf(const char *fmt, ...) { return 0; }
extern "C" int fprintf(FILE *f, const char *fmt, ...) { return 0; }
#include "core/MemoryPool.cpp"
#include "core/Symbols.cpp"
extern "C" void h_sym()
{
  Symbols s;
  char n1[3], n2[3];
  n1[0] = nondet_char(); n1[1] = nondet_char(); n1[2] = 0; n2[0] = nondet_char(); n2[1] = nondet_char(); n2[2] = 0;
  __CPROVER_assume(n1[0] >= 'a' && n1[0] <= 'b' && (n1[1] == 0 || (n1[1] >= 'a' && n1[1] <= 'b')));
  __CPROVER_assume(n2[0] >= 'a' && n2[0] <= 'b' && (n2[1] == 0 || (n2[1] >= 'a' && n2[1] <= 'b')));
  unsigned a1 = nondet_uint(), a2 = nondet_uint();
  int same = (n1[0] == n2[0] && n1[1] == n2[1]);
  int r1 = s.append(n1, a1);
  __CPROVER_assert(r1 == 0, "first append accepted");
  int r2 = s.append(n2, a2);
  __CPROVER_assert((r2 == -1) == same, "duplicate rejected, distinct accepted");
  unsigned v;
  __CPROVER_assert(s.lookup(n1, &v) == 0 && v == a1, "lookup returns first definition");
  if (!same) { __CPROVER_assert(s.lookup(n2, &v) == 0 && v == a2, "lookup returns second definition"); }
  __CPROVER_assert(s.count() == (same ? 1 : 2), "count");
  SymbolsIter it; int k = 0; while (s.iterate(&it) != -1) { k++; __CPROVER_assert(k <= 2, "iterate terminates"); }
  __CPROVER_assert(k == (same ? 1 : 2), "iterate visits each symbol once");
}
