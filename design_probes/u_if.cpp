#include "core/AsmContext.h"
extern "C" {
  int g_depth, g_dot, g_term, g_eof, g_ntok; int *g_p_line;
  int nondet_int();
}
Memory::Memory() {} Memory::~Memory() {}
Symbols::Symbols() {} Symbols::~Symbols() {} Macros::Macros() {} Macros::~Macros() {} AsmContext::AsmContext() {} AsmContext::~AsmContext() {}
#define P1(k) if (!done) { t[k] = s[k]; if (s[k] == 0) done = 1; }
static void put(char *t, const char *s) { int done = 0; P1(0) P1(1) P1(2) P1(3) P1(4) P1(5) P1(6) P1(7) }
static int lc(int c) { return (c >= 'A' && c <= 'Z') ? c + 32 : c; }
#define C1(k) if (r == 0 && !end) { int x = lc((unsigned char)a[k]), y = lc((unsigned char)b[k]); if (x != y) r = x - y; else if (x == 0) end = 1; }
extern "C" int strcasecmp(const char *a, const char *b) { int r = 0, end = 0; C1(0) C1(1) C1(2) C1(3) C1(4) C1(5) C1(6) C1(7) __CPROVER_assert(r != 0 || end, "strcasecmp stub: strings longer than 7"); return r; }
int tokens_get(AsmContext *asm_context, char *token, int len)
{
  int k = nondet_int();
  __CPROVER_assume(k >= 0 && k <= 8);
  g_ntok++; __CPROVER_assume(g_ntok < (1 << 28));
  __CPROVER_assert(g_term == 0, "no token requested after the terminator");
  if (g_eof) { token[0] = 0; return TOKEN_EOF; }
  int was_dot = g_dot; g_dot = 0;
  switch (k)
  {
    case 0: token[0] = 0; g_eof = 1; return TOKEN_EOF;
    case 1: put(token, "\n"); return TOKEN_EOL;
    case 2: put(token, "."); g_dot = !was_dot; return TOKEN_SYMBOL;
    case 3: put(token, "#"); g_dot = !was_dot; return TOKEN_POUND;
    case 4: put(token, "endif"); if (was_dot) { if (g_depth == 0) g_term = 1; else g_depth--; } return TOKEN_STRING;
    case 5: put(token, "else");  if (was_dot) { if (g_depth == 0) g_term = 2; } return TOKEN_STRING;
    case 6: put(token, "if");    if (was_dot) g_depth++; return TOKEN_STRING;
    case 7: put(token, "ifdef"); if (was_dot) g_depth++; return TOKEN_STRING;
#ifdef WITH_IFNDEF
    case 8: put(token, "ifndef"); if (was_dot) g_depth++; return TOKEN_STRING;
#endif
    default: put(token, "mov"); return TOKEN_STRING;
  }
}
void print_error(AsmContext *asm_context, const char *s) {}
int eval_ifdef_expression(AsmContext *asm_context) { return nondet_int(); }
char *macros_lookup(Macros *macros, char *name, int *param_count) { return 0; }
Symbols::Entry *Symbols::find(const char *name) { return 0; }
int AsmContext::assemble() { return nondet_int(); }
#include "core/directives_if.cpp"
extern "C" void h_ifdef_ignore()
{
  AsmContext ctx;
  ctx.tokens.line = nondet_int(); __CPROVER_assume(ctx.tokens.line >= 0 && ctx.tokens.line < (1 << 28));
  g_p_line = &ctx.tokens.line;
  g_depth = 0; g_dot = 0; g_term = 0; g_eof = 0; g_ntok = 0;
  int r = ifdef_ignore(&ctx);
  __CPROVER_assert(r == 0 || r == 2 || r == -1, "result code");
  __CPROVER_assert((r == 0) == (g_term == 1), "returns 0 exactly at the matching .endif");
  __CPROVER_assert((r == 2) == (g_term == 2), "returns 2 exactly at the matching .else");
  __CPROVER_assert((r == -1) == (g_eof == 1 && g_term == 0), "returns -1 exactly at end of input");
}
