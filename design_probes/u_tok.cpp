#include "core/AsmContext.h"
extern "C" { int g_errors; int nondet_int(); char nondet_char(); }
Memory::Memory() {} Memory::~Memory() {}
Symbols::Symbols() {} Symbols::~Symbols() {} Macros::Macros() {} Macros::~Macros() {} AsmContext::AsmContext() {} AsmContext::~AsmContext() {}
int macros_get_char(AsmContext *asm_context) { return CHAR_EOF; }
char *macros_lookup(Macros *macros, char *name, int *param_count) { return 0; }
int macros_push_define(Macros *macros, char *define) { return 0; }
char *macros_expand_params(AsmContext *asm_context, char *define, int param_count) { return 0; }
int Symbols::lookup(const char *name, uint32_t *address) { *address = 0; return -1; }
void print_error(AsmContext *asm_context, const char *s) { g_errors++; }
void print_error_internal(AsmContext *asm_context, const char *filename, int line) { g_errors++; }
extern "C" void exit(int c) { __CPROVER_assume(0); }
extern "C" int snprintf(char *buf, size_t n, const char *fmt, ...) { __CPROVER_assert(n > 0 && __CPROVER_OBJECT_SIZE(buf) - __CPROVER_POINTER_OFFSET(buf) >= n, "snprintf room"); buf[0] = 0; return 0; }
#include "core/tokens.cpp"
#ifndef NIN
#define NIN 12
#endif
extern "C" void h_tokens_get()
{
  AsmContext ctx;
  char src[NIN + 1];
  for (int i = 0; i < NIN; i++) src[i] = nondet_char();
  src[NIN] = 0;
  ctx.tokens.in = 0; ctx.list = 0; ctx.write_list_file = 0; ctx.linker = 0; ctx.pass = 1; ctx.ignore_symbols = 0; ctx.parsing_ifdef = 0;
  ctx.address = 0; ctx.bytes_per_address = 1;
  ctx.is_dollar_hex = nondet_int() & 1; ctx.strings_have_dots = nondet_int() & 1; ctx.strings_have_slashes = nondet_int() & 1; ctx.can_tick_end_string = nondet_int() & 1; ctx.numbers_dont_have_dots = nondet_int() & 1; ctx.ignore_number_postfix = nondet_int() & 1;
  tokens_open_buffer(&ctx, src);
  tokens_reset(&ctx);
  char token[TOKENLEN];
  int t = tokens_get(&ctx, token, TOKENLEN);
  int nul = 0; for (int i = 0; i < TOKENLEN; i++) if (token[i] == 0) nul = 1;
  __CPROVER_assert(nul, "token NUL-terminated inside buffer");
  __CPROVER_assert(ctx.tokens.unget_ptr >= 0 && ctx.tokens.unget_ptr < 512, "unget index in range");
}
