#include "core/AsmContext.h"
extern "C" { unsigned g_wa[8]; unsigned char g_wd[8]; int g_wl[8]; int g_wn; }
Memory::Memory() : pages{nullptr}, low_address{0xffffffff}, high_address{0}, entry_point{0xffffffff}, endian{ENDIAN_LITTLE} {}
Memory::~Memory() {}
void Memory::write(uint32_t address, uint8_t data, int line) { __CPROVER_assert(g_wn < 8, "log"); g_wa[g_wn] = address; g_wd[g_wn] = data; g_wl[g_wn] = line; g_wn++; }
