#include "core/Memory.h"
extern "C" {
unsigned int nondet_uint();
unsigned char nondet_uchar();
void h_write_read()
{
  Memory m;
  unsigned int a = nondet_uint();
  unsigned char d = nondet_uchar();
  m.write(a, d, 5);
  __CPROVER_assert(m.read8(a) == d, "read after write");
}
}
