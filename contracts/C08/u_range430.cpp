/* C08 — contract of disasm_range_msp430_both (disasm/msp430.cpp; static, text extracted verbatim; it backs
 * disasm_range_msp430 and disasm_range_msp430x).  disasm_msp430 / disasm_msp430x are their C08 length contract (2..8, even).
 * PRE   0 <= start <= end < 2^30, start even, any memory content (memory is an arbitrary function of the address).
 * POST  every word of [start, end] is shown exactly once, in increasing address order, labelled with its address and with
 *       the value memory holds there - in the code part one line per instruction word, in the interrupt vector part
 *       (0xffe0..0xffff) one line per vector; the vector name index stays inside the 16-entry name table (CBMC bounds
 *       obligation); the loop ends at the first instruction boundary after `end`.  Both loops under DFCC loop contracts.
 */
#include <stdio.h>
#include <stdlib.h>
#include <string.h>
#include <stdint.h>
#include "vh.h"
#include "core/Memory.h"
extern "C" { int g_next, g_start0, g_end; int g_ok, g_bad_format; unsigned char __CPROVER_uninterpreted_mem8(unsigned a); }
Memory::Memory() {} Memory::~Memory() {}
uint8_t Memory::read8(uint32_t a) { return __CPROVER_uninterpreted_mem8(a); }
uint16_t Memory::read16(uint32_t a) { return (uint16_t)(__CPROVER_uninterpreted_mem8(a) | (__CPROVER_uninterpreted_mem8(a + 1) << 8)); }
static void line(int addr, int value)
{
  if (addr != g_next) g_ok = 0;
  if (value != (int)((unsigned)__CPROVER_uninterpreted_mem8((unsigned)addr) | ((unsigned)__CPROVER_uninterpreted_mem8((unsigned)addr + 1) << 8))) g_ok = 0;
  g_next += 2;
}
static int is_line(const char *f) { return f[0] == '0' && f[1] == 'x' && f[2] == '%' && f[8] == '0' && f[9] == 'x'; }
static int vf_printf(const char *f) { return 0; }                                                        /* "\n", rule, "\nVectors:\n" */
static int vf_printf(const char *f, const char *a, const char *b, const char *c) { return 0; }          /* column header */
static int vf_printf(const char *f, int a, int v) { if (is_line(f)) line(a, v); else g_bad_format = 1; return 0; }
static int vf_printf(const char *f, int a, int v, int idx, const char *name) { if (is_line(f) && idx >= 0 && idx < 16) line(a, v); else g_bad_format = 1; return 0; }
static int vf_printf(const char *f, int a, int v, char *i) { if (is_line(f)) line(a, v); else g_bad_format = 1; return 0; }
static int vf_printf(const char *f, int a, int v, char *i, int c) { if (is_line(f)) line(a, v); else g_bad_format = 1; return 0; }
static int vf_printf(const char *f, int a, int v, char *i, int c, int d) { if (is_line(f)) line(a, v); else g_bad_format = 1; return 0; }
#define printf vf_printf
#include "disasm/msp430.h"
static int dis_contract(char *instruction, int length, int *cycles_min, int *cycles_max)
{
  OBL(length == 128 && __CPROVER_OBJECT_SIZE(instruction) - __CPROVER_POINTER_OFFSET(instruction) >= 128, "C08.range: the disassembler is given the 128-byte text buffer");
  instruction[0] = 0;
  *cycles_min = nondet_int(); *cycles_max = nondet_int();
  return 2 + 2 * (nondet_int() & 3);
}
int disasm_msp430(Memory *memory, uint32_t address, char *instruction, int length, int flags, int *cycles_min, int *cycles_max) { return dis_contract(instruction, length, cycles_min, cycles_max); }
int disasm_msp430x(Memory *memory, uint32_t address, char *instruction, int length, int flags, int *cycles_min, int *cycles_max) { return dis_contract(instruction, length, cycles_min, cycles_max); }
#include "gen/disasm_range_msp430_both.inc"
#undef printf
extern "C" void h_range430()
{
  Memory m;
  int start = nondet_int(), end = nondet_int();
  ASSUME(start >= 0 && start <= end && end < (1 << 30) && (start & 1) == 0);
  g_start0 = start; g_end = end; g_next = start; g_ok = 1; g_bad_format = 0;
  disasm_range_msp430_both(&m, start, end, nondet_int() & 1);
  OBL(g_ok, "C08.range: every word of the range is shown exactly once, in increasing order, with its address and the value memory holds there");
  OBL(!g_bad_format, "C08.range: every line is written with one of the function's formats (vector name index inside the table)");
  OBL(g_next > end && g_next - end <= 8, "C08.range: the range is covered up to the first instruction boundary after its end");
  CANARY("h_range430 end");
}
