/* C08 — contract of a per-CPU range disassembler, instantiated for disasm_range_tms9900 (disasm/tms9900.cpp; the function
 * text is extracted verbatim, disasm_tms9900 is its C08 contract: a length of 2, 4 or 6 bytes):
 * PRE   any start <= end below 2^31, start even, any memory content, any flags.
 * POST  the words of the range are shown exactly once each, in increasing address order (every Memory::read16 of the
 *       function is the next word of the range), one line per instruction labelled with the instruction's address;
 *       the loop reaches the end of the range; the opcode column is built inside its buffer
 *       (ghost string lengths through the snprintf / strcat contracts).
 * Both loops are closed by DFCC loop contracts (any range length).
 */
#include <stdio.h>
#include <stdlib.h>
#include <string.h>
#include <stdint.h>
#include "vh.h"
#include "core/Memory.h"
extern "C" {
unsigned g_next_word, g_next_line, g_start0, g_end; int g_ok, g_bad_format, g_lines, g_tlen, g_blen;
}
Memory::Memory() {} Memory::~Memory() {}
#ifndef UNIT
#define UNIT 2
#define MAXLEN 6
#define RANGEFN disasm_range_tms9900
#define DISFN disasm_tms9900
#define DISHDR disasm/tms9900.h
#define RANGEINC gen/disasm_range_tms9900.inc
#endif
#define VSTR(x) #x
#define VXSTR(x) VSTR(x)
#if UNIT == 2
uint16_t Memory::read16(uint32_t a) { if (a != g_next_word) g_ok = 0; g_next_word += 2; return nondet_ushort(); }
#define TLEN 5
#define VMAX 0xffff
#else
uint8_t Memory::read8(uint32_t a) { if (a != g_next_word) g_ok = 0; g_next_word += 1; return nondet_uchar(); }
#define TLEN 3
#define VMAX 0xff
#endif
/* string contracts with ghost lengths: snprintf(temp, n, "%04x ", 16-bit value) writes 5 characters + NUL;
   strcat appends the last formatted string to the opcode column, which starts empty when its first byte is NUL */
static int vs_snprintf(char *d, size_t n, const char *f, unsigned v)
{
  OBL(f[0] == '%' && f[4] == ' ' && f[5] == 0 && v <= VMAX && n >= TLEN + 1 && n <= __CPROVER_OBJECT_SIZE(d) - __CPROVER_POINTER_OFFSET(d), "C08.range: the word is formatted inside its temporary buffer");
  g_tlen = TLEN; d[0] = 'x';
  return TLEN;
}
static char *vs_strcat(char *d, const char *s)
{
  if (d[0] == 0) g_blen = 0;
  OBL((size_t)(g_blen + g_tlen + 1) <= __CPROVER_OBJECT_SIZE(d) - __CPROVER_POINTER_OFFSET(d), "C08.range: the opcode column fits its buffer");
  g_blen += g_tlen; d[0] = 'x';
  return d;
}
static void line(unsigned addr) { if (addr != g_next_line) g_ok = 0; g_lines = 1; }
static int vf_printf(const char *f) { return 0; }
static int vf_printf(const char *f, const char *a, const char *b, const char *c) { return 0; }      /* column header */
static int is_line(const char *f) { return f[0] == '0' && f[1] == 'x' && f[2] == '%'; }
static int vf_printf(const char *f, uint32_t a, char *b, char *i) { if (is_line(f)) line(a); else g_bad_format = 1; return 0; }
static int vf_printf(const char *f, uint32_t a, char *b, char *i, int c) { if (is_line(f)) line(a); else g_bad_format = 1; return 0; }
static int vf_printf(const char *f, uint32_t a, char *b, char *i, int c, int d) { if (is_line(f)) line(a); else g_bad_format = 1; return 0; }
#define printf vf_printf
#define snprintf vs_snprintf
#define strcat vs_strcat
#include VXSTR(DISHDR)
int DISFN(Memory *memory, uint32_t address, char *instruction, int length, int flags, int *cycles_min, int *cycles_max)
{
  OBL(length == 128 && __CPROVER_OBJECT_SIZE(instruction) - __CPROVER_POINTER_OFFSET(instruction) >= 128, "C08.range: the disassembler is given the 128-byte text buffer");
  instruction[0] = 0;
  *cycles_min = nondet_int(); *cycles_max = nondet_int();
  int k = nondet_int(); ASSUME(k >= 1 && k <= MAXLEN / UNIT);
  g_next_line = address;
  return UNIT * k;
}
#include VXSTR(RANGEINC)
#undef printf
#undef snprintf
#undef strcat
extern "C" void h_range()
{
  Memory m;
  unsigned start = nondet_uint(), end = nondet_uint();
  ASSUME(start <= end && end < (1u << 31) && (start % UNIT) == 0);
  g_start0 = start; g_end = end; g_next_word = start; g_next_line = start; g_ok = 1; g_bad_format = 0; g_lines = 0; g_tlen = 0; g_blen = 0;
  RANGEFN(&m, nondet_uint(), start, end);
  OBL(g_ok, "C08.range: every word of the range is shown exactly once, in increasing order, on the line of its instruction");
  OBL(!g_bad_format, "C08.range: every line is written with one of the function's formats");
  OBL(g_next_word > end && g_next_word - end <= MAXLEN, "C08.range: the range is covered up to the first instruction boundary after its end");
  CANARY("h_range end");
}
