/* C08 — contract of pdp11_addressing_mode (disasm/pdp11.cpp; static, text extracted verbatim): the number of extension
 * bytes an operand contributes to the instruction length.  PDP-11 processor handbook, addressing modes: modes 6 and 7
 * (index, index deferred) use the word that follows; with register 7 (PC) modes 2 and 3 are immediate and absolute and
 * use the word that follows; every other mode uses no further word.
 * POST (all 8 registers x 8 modes, any memory word): the function returns 2 exactly for those operands and 0 otherwise,
 *      and whenever the rendered text shows the following word the function returns 2 (the text never depends on a word
 *      that is not counted in the instruction's length).
 */
#include <stdio.h>
#include <stdlib.h>
#include <string.h>
#include <stdint.h>
#include "vh.h"
#include "core/Memory.h"
extern "C" { int g_uses_value; unsigned short g_word; }
Memory::Memory() {} Memory::~Memory() {}
uint16_t Memory::read16(uint32_t a) { return g_word; }
/* formatting contract: a format with an integer conversion other than the register number shows the following word */
static int vs_snprintf(char *d, size_t n, const char *f) { d[0] = 0; return 0; }
static int vs_snprintf(char *d, size_t n, const char *f, int a) { if (!(f[0] == 'r' || f[1] == 'r' || f[2] == 'r' || f[3] == 'r')) g_uses_value = 1; d[0] = 0; return 0; }   /* "r%d" family shows a register number */
static int vs_snprintf(char *d, size_t n, const char *f, int a, int b) { g_uses_value = 1; d[0] = 0; return 0; }                                      /* "0x%04x(r%d)" family */
#define snprintf vs_snprintf
#include "gen/pdp11_addressing_mode.inc"
#undef snprintf
extern "C" void h_pdp11_mode()
{
  Memory m; char temp[64];
  int reg = nondet_int(), mode = nondet_int(); unsigned address = nondet_uint();
  ASSUME(reg >= 0 && reg <= 7 && mode >= 0 && mode <= 7 && address < 0x10000u && (address & 1) == 0);
  g_word = nondet_ushort(); g_uses_value = 0;
  int n = pdp11_addressing_mode(&m, address, temp, sizeof(temp), reg, mode);
  int want = (mode == 6 || mode == 7 || (reg == 7 && (mode == 2 || mode == 3))) ? 2 : 0;
  OBL(n == want, "C08.pdp11: an operand adds one word to the instruction length exactly in the index, index-deferred, immediate and absolute modes");
  OBL(!g_uses_value || n == 2, "C08.pdp11: the text shows the following word only when that word is counted in the length");
  CANARY("h_pdp11_mode end");
}
