/* C08 — contract of disasm_range_mips (disasm/mips.cpp; text extracted verbatim; disasm_mips is a contract: MIPS instructions
 * are 4 bytes): every word of [start, end) is shown exactly once in increasing order with its address, and the loop ends.
 * PRE   start <= end, start a multiple of 4, any memory.  Input classes: -DTOP_ONLY = ranges with end > 0xfffffffc (the
 *       range reaches the last word of the address space: listed finding), default = all other ranges.
 */
#include <stdio.h>
#include <stdlib.h>
#include <string.h>
#include <stdint.h>
#include "vh.h"
#include "core/Memory.h"
extern "C" { unsigned g_next, g_start0, g_end; int g_ok, g_bad_format, g_wrapped; }
Memory::Memory() {} Memory::~Memory() {}
uint32_t Memory::read32(uint32_t a) { if (a != g_next || g_wrapped) g_ok = 0; if (g_next > 0xfffffffbu) g_wrapped = 1; g_next += 4; return nondet_uint(); }
static int vf_printf(const char *f) { return 0; }
static int vf_printf(const char *f, const char *a, const char *b, const char *c) { return 0; }
static int is_line(const char *f) { return f[0] == '0' && f[1] == 'x' && f[2] == '%'; }
static int vf_printf(const char *f, uint32_t a, int v, char *i) { if (!is_line(f)) g_bad_format = 1; return 0; }
static int vf_printf(const char *f, uint32_t a, int v, char *i, int c) { if (!is_line(f)) g_bad_format = 1; return 0; }
static int vf_printf(const char *f, uint32_t a, int v, char *i, int c, int d) { if (!is_line(f)) g_bad_format = 1; return 0; }
#define printf vf_printf
#include "disasm/mips.h"
int disasm_mips(Memory *memory, uint32_t address, char *instruction, int length, int flags, int *cycles_min, int *cycles_max)
{
  OBL(length == 128 && __CPROVER_OBJECT_SIZE(instruction) - __CPROVER_POINTER_OFFSET(instruction) >= 128, "C08.range: the disassembler is given the 128-byte text buffer");
  instruction[0] = 0; *cycles_min = nondet_int(); *cycles_max = nondet_int();
  CANARY("the range loop's body is reachable");
  return 4;
}
#include "gen/disasm_range_mips.inc"
#undef printf
extern "C" void h_range_mips()
{
  Memory m;
  unsigned start = nondet_uint(), end = nondet_uint();
  ASSUME(start <= end && (start & 3) == 0);
#ifdef TOP_ONLY
  ASSUME(end > 0xfffffffcu);
#else
  ASSUME(end <= 0xfffffffcu);
#endif
  g_start0 = start; g_end = end; g_next = start; g_ok = 1; g_bad_format = 0; g_wrapped = 0;
  disasm_range_mips(&m, nondet_uint(), start, end);
  OBL(g_ok, "C08.range: every word of the range is shown exactly once, in increasing order (no word is shown again after the top of the address space)");
  OBL(!g_bad_format, "C08.range: every line is written with one of the function's formats");
#ifndef TOP_ONLY
  CANARY("h_range_mips end");
#endif
}
