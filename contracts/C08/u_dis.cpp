/* C08 — generic contract of disasm_<cpu>(Memory*, address, instruction, length, flags, &cmin, &cmax)
 * instantiated per CPU with -DCPU=<name> -DUNIT=<bytes per unit> -DMAXLEN=<longest instruction>.
 *
 * PRE   any bytes (window memory: 16 symbolic bytes from the instruction's address), any address
 *       aligned to the CPU's unit, any flags, caller buffer of 128 bytes.
 * POST  total: returns; UNIT <= count <= MAXLEN, count % UNIT == 0;
 *       local: every byte read lies inside [address, address + count)   (fast path; CPUs that read
 *              ahead use the 2-safety form -DTWOSAFETY: two windows equal on the first count bytes
 *              give the same count);
 *       text: instruction[] holds a NUL inside the caller's buffer; no write outside the buffer
 *              (CBMC bounds/pointer checks through the size-accounting snprintf/sprintf/strcat contracts);
 *       table indices in range (bounds checks on the real code).
 */
#include <stdio.h>
#include <stdlib.h>
#include <string.h>
#include <stdint.h>
#include "vh.h"
#include "core/Memory.h"

extern "C" {
unsigned g_base; unsigned g_max_off; int g_outside; int g_sel;
unsigned char g_win[16]; unsigned char g_win2[16];
}
Memory::Memory() {} Memory::~Memory() {}
uint8_t Memory::read8(uint32_t a)
{
  unsigned off = a - g_base;
  if (off >= 16) { g_outside = 1; return nondet_uchar(); }
  if (off > g_max_off) g_max_off = off;
  return g_sel ? g_win2[off] : g_win[off];
}
uint16_t Memory::read16(uint32_t a) { return endian == 0 ? (read8(a) | (read8(a + 1) << 8)) : ((read8(a) << 8) | read8(a + 1)); }
uint32_t Memory::read32(uint32_t a) { return endian == 0 ? (read8(a) | (read8(a + 1) << 8) | (read8(a + 2) << 16) | (read8(a + 3) << 24)) : ((read8(a) << 24) | (read8(a + 1) << 16) | (read8(a + 2) << 8) | read8(a + 3)); }
int Memory::read_debug(uint32_t a) { return nondet_int(); }

#if defined(STRINGS_HASH) && !defined(VERIF_CBMC)
/* native replay of the text-hash form: the real libc formats the text and the two texts are compared */
unsigned g_text_hash;
#elif defined(STRINGS_ABSTRACT)
/* string-abstract variant: the text is not modelled at all (every formatting call is a no-op that
   leaves an empty string), only length / locality / table-index obligations are decided */
extern "C" char *strcat(char *d, const char *s) { return d; }
extern "C" char *strcpy(char *d, const char *s) { d[0] = 0; return d; }
#ifdef STRINGS_HASH
/* snprintf/sprintf come from contracts/common/st_hash.c: the text is represented by a hash of the format strings and their integer arguments */
extern "C" { extern unsigned g_text_hash; }
#else
extern "C" int snprintf(char *d, size_t n, const char *f, ...) { d[0] = 0; return 0; }
extern "C" int sprintf(char *d, const char *f, ...) { d[0] = 0; return 0; }
#endif
#endif
#define VSTR(x) #x
#define VXSTR(x) VSTR(x)
#define VCAT(a, b) a##b
#define VXCAT(a, b) VCAT(a, b)
#ifdef TABLE1
#include VXSTR(TABLE1)
#endif
#ifdef TABLE2
#include VXSTR(TABLE2)
#endif
#include VXSTR(DISFILE)

extern "C" void h_dis()
{
  Memory m; m.endian = nondet_int() & 1;
  char instruction[128]; int cmin = 0, cmax = 0;
  for (int i = 0; i < 16; i++) { g_win[i] = nondet_uchar(); g_win2[i] = nondet_uchar(); }
  unsigned address = nondet_uint(); ASSUME(address < 0x7fff0000u && (address % UNIT) == 0);
  int flags = nondet_int();
  /* input classes: a listed known finding is confined to its class (-DONLY_...), the complementary
     group (-DEXCLUDE_...) must be clean, so a different failing input is still reported */
#ifdef CLASS_MASK
  {
    unsigned w0 = g_win[0] | (g_win[1] << 8);
#ifdef CLASS_ONLY
    ASSUME((w0 & CLASS_MASK) == CLASS_VAL);
#else
    ASSUME((w0 & CLASS_MASK) != CLASS_VAL);
#endif
  }
#endif
  g_base = address; g_max_off = 0; g_outside = 0; g_sel = 0;
#ifdef STRINGS_HASH
  g_text_hash = 0;
#endif
  int count = DISFN(&m, address, instruction, sizeof(instruction), flags, &cmin, &cmax);
#ifndef VERIF_CBMC
  printf("REPLAY-INFO: address=0x%x flags=0x%x endian=%d bytes=%02x %02x %02x %02x %02x %02x -> count=%d max_read_offset=%u outside=%d text='%s'\n", address, flags, m.endian, g_win[0], g_win[1], g_win[2], g_win[3], g_win[4], g_win[5], count, g_max_off, g_outside, instruction);
#endif
  OBL(count >= UNIT && count <= MAXLEN && (count % UNIT) == 0, "C08.dis: length is at least one unit, at most the longest instruction, a multiple of the unit");
#ifdef SPEC_AVR8_LEN
  /* AVR instruction set manual: JMP (1001 010k kkkk 110k), CALL (1001 010k kkkk 111k), LDS (1001 000d dddd 0000) and
     STS (1001 001d dddd 0000) are the 32-bit instructions; every other opcode word is a 16-bit instruction */
  {
    unsigned w0 = g_win[0] | (g_win[1] << 8);
    int is32 = ((w0 & 0xfe0c) == 0x940c) || ((w0 & 0xfc0f) == 0x9000);
    OBL(count == (is32 ? 4 : 2), "C08.avr8: the length is 4 exactly for jmp, call, lds and sts (the manual's 32-bit instructions) and 2 for every other opcode word");
  }
#endif
#ifndef TWOSAFETY
  OBL(!g_outside && g_max_off < (unsigned)count, "C08.dis: reads only the bytes of the instruction it reports");
#else
  OBL(!g_outside, "C08.dis: reads stay inside the 16-byte window");
#endif
#ifndef STRINGS_ABSTRACT
  int nul = 0; for (int i = 0; i < 128; i++) if (instruction[i] == 0) nul = 1;
  OBL(nul, "C08.dis: text is NUL terminated inside the caller's buffer");
#endif
#ifdef TWOSAFETY
  /* second run: same first count bytes, arbitrary bytes after */
  for (int i = 0; i < 16; i++) ASSUME(i >= count || g_win2[i] == g_win[i]);
  char instruction2[128]; int cmin2 = 0, cmax2 = 0;
  g_sel = 1; g_outside = 0;
#ifdef STRINGS_HASH
  unsigned hash1 = g_text_hash; g_text_hash = 0;
#endif
  int count2 = DISFN(&m, address, instruction2, sizeof(instruction2), flags, &cmin2, &cmax2);
  OBL(count2 == count, "C08.dis: length does not depend on any byte after the instruction");
#ifdef STRINGS_HASH
#ifdef VERIF_CBMC
  OBL(g_text_hash == hash1, "C08.dis: text (format strings and their arguments) does not depend on any byte after the instruction");
#else
  printf("REPLAY-INFO: second run text='%s' count=%d\n", instruction2, count2);
  OBL(strcmp(instruction, instruction2) == 0, "C08.dis: text (format strings and their arguments) does not depend on any byte after the instruction");
#endif
#endif
#endif
  CANARY("h_dis end");
}
