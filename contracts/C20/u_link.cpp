/* C20 — contract of link_function_mips (asm/mips.cpp) with add_bin32 (core/add_bin.cpp):
 * a function of an object file is appended to the image; its bytes are those of the object file except
 * that each call relocation (jal) targets the FINAL address of the symbol it names.
 *
 * PRE   pass 2; code = arbitrary bytes of arbitrary length size (multiple of 4, unbounded: DFCC loop
 *       contract); the relocation lookup (imports_obj_find_name_from_offset), the symbol table and the
 *       linker search are contracts returning arbitrary results.
 * POST  witness word K: the emitted word equals the input word unless its opcode bits 31..26 are 000011
 *       (jal): then bits 31..26 are kept and bits 25..0 == (final address >> 2) & 0x3ffffff;
 *       exactly size bytes are appended at the entry address; an unresolved symbol returns -1.
 */
#include "stub_ctx.h"
#include "asm/common.h"
#include "core/Linker.h"
#include "core/imports_obj.h"

extern "C" {
int g_a0, g_K, g_nw, g_seq_ok, g_size;
unsigned g_in_word, g_out_word, g_sym_addr; int g_sym_res, g_find_ok, g_w_is_jal_seen;
unsigned char g_ob0, g_ob1, g_ob2, g_ob3; int g_ohits; unsigned char g_ib0, g_ib1, g_ib2, g_ib3;
int *g_p_address; int *g_p_endian;
const uint8_t *g_code;
}
static char g_symname[2];
void Memory::write(uint32_t address, uint8_t data, int line)
{
  if (address != (uint32_t)(g_a0 + g_nw)) g_seq_ok = 0;
  unsigned off = address - (unsigned)(g_a0 + 4 * g_K);
  if (off < 4) { g_ohits++; if (off == 0) g_ob0 = data; else if (off == 1) g_ob1 = data; else if (off == 2) g_ob2 = data; else g_ob3 = data; }
  g_nw++;
}
const char *imports_obj_find_name_from_offset(uint8_t *buffer, uint32_t file_size, uint32_t function_offset, uint32_t local_offset)
{
  return (nondet_int() & 1) ? &g_symname[0] : 0;
}
int Symbols::lookup(const char *name, uint32_t *address)
{
  unsigned a = nondet_uint(); int r = nondet_int(); ASSUME(r == 0 || r == -1);
  /* the relocation of the witness word is the one resolved while word K is processed */
  if (*g_p_address == g_a0 + 4 * g_K) { g_sym_addr = a; g_sym_res = r; }
  *address = a;
  return r;
}
int Linker::search_code_from_symbol(const char *symbol) { return nondet_int() & 1; }
int tokens_get(AsmContext *, char *, int) { return TOKEN_EOF; }
void tokens_push(AsmContext *, const char *, int) {}
int eval_expression(AsmContext *, int *) { return -1; }
#define printf(...) (g_errors++, 0)
#include "core/add_bin.cpp"
extern "C" {
#include "gen/link_function_mips.inc"
}
#undef printf

extern "C" void h_link()
{
  AsmContext ctx;
  ctx.pass = 2; ctx.pass_1_write_disable = nondet_int() & 1; ctx.memory.endian = nondet_int() & 1; ctx.address = nondet_int(); ctx.tokens.line = 1;
  ASSUME(ctx.address >= 0 && ctx.address < (1 << 28));
  int size = nondet_int(); ASSUME(size >= 0 && size <= (1 << 20) && (size & 3) == 0);
  uint8_t *code = (uint8_t *)malloc(size > 0 ? size : 1); ASSUME(code != 0);
  g_K = nondet_int(); ASSUME(g_K >= 0 && g_K < (1 << 18) && 4 * g_K + 3 < size);
  g_a0 = ctx.address; g_nw = 0; g_seq_ok = 1; g_ohits = 0; g_errors = 0; g_size = size; g_code = code; g_sym_res = -2;
  g_p_address = &ctx.address; g_p_endian = &ctx.memory.endian;
  const int le = (ctx.memory.endian == ENDIAN_LITTLE);
  unsigned b0 = code[4 * g_K], b1 = code[4 * g_K + 1], b2 = code[4 * g_K + 2], b3 = code[4 * g_K + 3];
  g_ib0 = b0; g_ib1 = b1; g_ib2 = b2; g_ib3 = b3;
  unsigned in_word = le ? (b0 | (b1 << 8) | (b2 << 16) | (b3 << 24)) : (b3 | (b2 << 8) | (b1 << 16) | (b0 << 24));
  int r = link_function_mips(&ctx, 0, code, nondet_uint(), size, 0, nondet_uint());
  OBL(r == 0 || r == -1, "C20.link: result code is 0 or -1");
  OBL(g_seq_ok, "C20.link: bytes are appended sequentially from the entry address, nothing elsewhere");
  if (r == 0)
  {
    OBL(g_nw == size && ctx.address == g_a0 + size, "C20.link: exactly size bytes are appended");
    OBL(g_ohits == 4, "C20.link: every word of the function is emitted once");
    unsigned out = le ? (g_ob0 | (g_ob1 << 8) | (g_ob2 << 16) | ((unsigned)g_ob3 << 24)) : (g_ob3 | (g_ob2 << 8) | (g_ob1 << 16) | ((unsigned)g_ob0 << 24));
    if ((in_word & 0xfc000000u) == 0x0c000000u)
    {
      OBL(g_sym_res == 0, "C20.link: a call relocation is bound only to a resolved symbol");
      OBL(out == (0x0c000000u | ((g_sym_addr >> 2) & 0x03ffffffu)), "C20.link: a jal keeps its opcode and targets the final address of its symbol (26-bit field)");
    }
    else
    {
      OBL(out == in_word, "C20.link: every other word is copied unchanged in the image's byte order");
    }
    OBL(g_errors == 0, "C20.link: no diagnostic on success");
  }
  else
  {
    OBL(g_errors > 0, "C20.link: an unresolved symbol is reported");
  }
  CANARY("h_link end");
}
