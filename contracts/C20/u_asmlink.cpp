/* C20 — contract of AsmContext::link (core/AsmContext.cpp) and Linker::get_code_from_symbol (core/Linker.cpp);
 * both function texts are extracted verbatim by tools/prep_tree.py, the rest of Linker/imports is replaced by contracts.
 *
 * Needed-symbol list: a ghost list of g_nsyms names; link_function (the CPU's relocation step, contract) may append
 * further names while it runs (callees discovered in the imported code), up to MAXSYMS.
 * Imports: a list of two import records of symbolic kind (archive / object); the lookup contracts of both kinds
 * (imports_ar_find_code_from_symbol / imports_obj_find_code_from_symbol) report, for the import that defines the symbol,
 * the symbol's offset g_off, size g_size and file offset g_foff through their own parameters.
 * POST  every name of the list - including those appended during the loop - is placed exactly once, in list order
 *       (g_placed == final g_nsyms, the k-th call of link_function is for the k-th name);
 *       link_function receives the defining import, its code pointer + file offset, and the symbol's OFFSET and SIZE
 *       as reported by that import's lookup, whatever the kind of the import;
 *       a failing link_function makes link() fail; the symbol is entered at the location counter before placement.
 */
#include "stub_ctx.h"
#include <stdio.h>
#include <stdlib.h>
#include <string.h>
#include "core/Linker.h"
#include "core/imports_ar.h"
#include "core/imports_obj.h"
#ifndef MAXSYMS
#define MAXSYMS (1 << 20)
#endif
extern "C" {
int g_nsyms, g_placed, g_order_ok, g_args_ok, g_lf_fail, g_appended, g_append_ok;
unsigned g_off, g_size, g_foff; int g_def_in;   /* which import (0/1) defines the current symbol, -1 none */
int *g_p_pass;
}
static char g_name[4] = "f";
static Imports *g_imp[2];
Linker::Linker() {} Linker::~Linker() {}
const char *Linker::get_symbol_at_index(int index) { return (index >= 0 && index < g_nsyms) ? g_name : (const char *)0; }
int Linker::get_symbol_count() { return g_nsyms; }
/* the needed-symbol list records for every name the import that defines it */
Imports *Linker::get_from_symbol_list(const char *name) { return g_def_in >= 0 ? g_imp[g_def_in] : (Imports *)0; }
static int lookup_contract(uint8_t *buffer, uint32_t *function_offset, uint32_t *function_size, uint32_t *file_offset)
{
  int me = (buffer == &g_imp[0]->code[0]) ? 0 : 1;
  if (me != g_def_in) { *function_size = 0; *file_offset = 0; return -1; }
  *function_offset = g_off; *function_size = g_size; *file_offset = g_foff;
  return 0;
}
int imports_ar_find_code_from_symbol(uint8_t *buffer, int file_size, const char *symbol, uint32_t *function_offset, uint32_t *function_size, uint32_t *file_offset, uint8_t **obj_file, uint32_t *obj_size)
{
  *obj_file = buffer; *obj_size = (uint32_t)file_size;
  return lookup_contract(buffer, function_offset, function_size, file_offset);
}
int imports_obj_find_code_from_symbol(uint8_t *buffer, int file_size, const char *symbol, uint32_t *function_offset, uint32_t *function_size, uint32_t *file_offset)
{
  return lookup_contract(buffer, function_offset, function_size, file_offset);
}
int Symbols::append(const char *name, uint32_t address) { g_appended++; return 0; }
int Symbols::lookup(const char *name, uint32_t *address) { *address = 0; return -1; }
void list_output(AsmContext *, uint32_t, uint32_t) {}
static int vs_link_function(AsmContext *ctx, Imports *imports, const uint8_t *code, uint32_t function_offset, int size, uint8_t *obj_file, uint32_t obj_size)
{
  if (g_appended != g_placed + 1) g_append_ok = 0;             /* entered in the symbol table before placement, once */
  if (g_def_in < 0)
  {
    if (code != 0) g_args_ok = 0;                               /* not found anywhere: no code */
  }
  else
  {
    if (imports != g_imp[g_def_in] || code != &g_imp[g_def_in]->code[0] + g_foff) g_args_ok = 0;
    if (function_offset != g_off || (unsigned)size != g_size) g_args_ok = 0;
  }
  g_placed++;
  if (nondet_int() & 1) { g_lf_fail = 1; return -1; }
  /* callees found in the placed code are appended to the needed-symbol list */
  if ((nondet_int() & 1) && g_nsyms < MAXSYMS) g_nsyms++;
  /* the next symbol: where it is defined, with which offset/size */
  g_def_in = (nondet_int)() % 3 - 1; if (g_def_in < -1) g_def_in = -1;
  g_off = (nondet_uint)(); g_size = (nondet_uint)(); g_foff = (nondet_uint)() & 0xff;
  return 0;
}
#define printf(...) (0)
#define fprintf(...) (0)
#include "gen/Linker_get_code_from_symbol.inc"
#include "gen/AsmContext_link.inc"
#undef printf
#undef fprintf
void AsmContext::init() {}
extern "C" void h_asmlink()
{
  AsmContext ctx; Linker lk;
  g_imp[0] = (Imports *)malloc(sizeof(Imports) + 256); g_imp[1] = (Imports *)malloc(sizeof(Imports) + 256);
  ASSUME(g_imp[0] != 0 && g_imp[1] != 0);
  g_imp[0]->next = g_imp[1]; g_imp[1]->next = 0; g_imp[0]->size = 256; g_imp[1]->size = 256;
  g_imp[0]->type = (nondet_int() & 1) ? IMPORT_TYPE_AR : IMPORT_TYPE_OBJ; g_imp[1]->type = (nondet_int() & 1) ? IMPORT_TYPE_AR : IMPORT_TYPE_OBJ;
  lk.imports = g_imp[0];
  ctx.linker = (nondet_int() & 1) ? &lk : (Linker *)0;
  ctx.link_function = vs_link_function; ctx.pass = 1 + (nondet_int() & 1); ctx.list = 0; ctx.write_list_file = 0; ctx.address = nondet_uint() & 0xffffff;
  g_nsyms = nondet_int(); ASSUME(g_nsyms >= 0 && g_nsyms <= MAXSYMS);
  g_placed = 0; g_order_ok = 1; g_args_ok = 1; g_lf_fail = 0; g_appended = 0; g_append_ok = 1;
  g_def_in = nondet_int() % 3 - 1; ASSUME(g_def_in >= -1 && g_def_in <= 1);
  g_off = nondet_uint(); g_size = nondet_uint(); g_foff = nondet_uint() & 0xff;
  int r = ctx.link();
  if (ctx.linker == 0) { OBL(r == 0 && g_placed == 0, "C20.link: without imported files nothing is placed"); }
  else
  {
    OBL(g_args_ok, "C20.link: the relocation step receives the defining import, its code, and the symbol's offset and size as reported by that import (archive or object)");
    OBL(g_append_ok, "C20.link: each imported symbol is entered once at the location counter before it is placed");
    OBL((r == 0) == (g_lf_fail == 0), "C20.link: link fails exactly when a relocation step fails");
    if (r == 0) OBL(g_placed == g_nsyms, "C20.link: every needed symbol, including those discovered while placing others, is placed exactly once");
  }
  CANARY("h_asmlink end");
}
