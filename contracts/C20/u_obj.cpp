/* C20 — contracts of the ELF32 symbol/relocation lookups of core/imports_obj.cpp (static functions):
 *   imports_obj_symbol_table_lookup_by_offset: the call relocation at the given offset names symbol number
 *     r_info >> 8 (a 24-bit index, ELF32 r_info layout) - for every index below the table size;
 *   imports_obj_symbol_table_lookup_by_name: a function is found through its DEFINING symbol (st_size != 0),
 *     an undefined reference with the same name (st_size == 0) is skipped.
 * BOUNDED: one relocation; symbol tables of up to 300 (by_offset) / 2 (by_name) entries, contents symbolic.
 */
#include <stdio.h>
#include <stdlib.h>
#include <string.h>
#include "vh.h"
#define printf(...) (0)
#include "core/imports_get_int.cpp"
#include "core/imports_obj.cpp"
#undef printf

static void put32(uint8_t *p, unsigned v) { p[0] = v & 0xff; p[1] = (v >> 8) & 0xff; p[2] = (v >> 16) & 0xff; p[3] = (v >> 24) & 0xff; }

extern "C" void h_lookup_by_offset()
{
  int n = nondet_int(); ASSUME(n >= 1 && n <= 300);
  uint8_t *symtab = (uint8_t *)malloc(16 * 300); ASSUME(symtab != 0);
  static uint8_t strtab[8];
  for (int i = 0; i < 7; i++) { strtab[i] = nondet_uchar(); ASSUME(strtab[i] != 0); }
  strtab[7] = 0;
  uint8_t rel[8];
  unsigned function_offset = nondet_uint();
  unsigned idx = nondet_uint(), type = nondet_uint();
  ASSUME(idx < (unsigned)n && type < 256);
  put32(rel, function_offset); put32(rel + 4, (idx << 8) | type);
  unsigned nameoff = nondet_uint(); ASSUME(nameoff < 7);
  put32(symtab + 16 * idx, nameoff);                       /* st_name of the named symbol */
  const char *r = imports_obj_symbol_table_lookup_by_offset(symtab, 16 * n, strtab, 8, rel, 8, function_offset, nondet_uint());
  OBL(r == (const char *)&strtab[0] + nameoff, "C20.obj: a call relocation is bound to the symbol whose index is r_info >> 8 (24-bit index)");
  CANARY("h_lookup_by_offset end");
}

extern "C" void h_lookup_by_name()
{
  static uint8_t symtab[32];
  static uint8_t strtab[8];      /* "\0ab\0..." : both entries name the string at offset 1 */
  strtab[0] = 0; strtab[1] = 'f'; strtab[2] = 'n'; strtab[3] = 0;
  for (int i = 0; i < 32; i++) symtab[i] = nondet_uchar();
  unsigned v0 = nondet_uint(), v1 = nondet_uint(), sz1 = nondet_uint();
  ASSUME(sz1 != 0 && sz1 < 0x7fffffff);
  put32(symtab + 0, 1); put32(symtab + 4, v0); put32(symtab + 8, 0);        /* undefined reference: st_size == 0 */
  put32(symtab + 16, 1); put32(symtab + 20, v1); put32(symtab + 24, sz1);   /* definition */
  uint32_t off = 0, size = 0;
  static char name[3]; name[0] = 'f'; name[1] = 'n'; name[2] = 0;
  int r = imports_obj_symbol_table_lookup_by_name(symtab, 32, strtab, 8, name, &off, &size);
  OBL(r == 0 && off == v1 && size == sz1, "C20.obj: a function is located through its defining symbol, an undefined reference of the same name is skipped");
  static char other[3]; other[0] = 'f'; other[1] = 'x'; other[2] = 0;
  OBL(imports_obj_symbol_table_lookup_by_name(symtab, 32, strtab, 8, other, &off, &size) == -1, "C20.obj: a name that is not in the table is not found");
  CANARY("h_lookup_by_name end");
}
