/* C20/C17 — leaf contracts of get_int16_le/be, get_int32_le/be (core/imports_get_int.cpp): the value is
 * assembled from exactly the 2 / 4 bytes at the pointer, in the named byte order, for all byte values. */
#include "vh.h"
#include "core/imports_get_int.cpp"
extern "C" void h_get_int()
{
  uint8_t b[4]; for (int i = 0; i < 4; i++) b[i] = nondet_uchar();
  OBL((unsigned)get_int32_le(b) == (b[0] | (b[1] << 8) | (b[2] << 16) | ((unsigned)b[3] << 24)), "C20.getint: 32-bit little endian");
  OBL((unsigned)get_int32_be(b) == (b[3] | (b[2] << 8) | (b[1] << 16) | ((unsigned)b[0] << 24)), "C20.getint: 32-bit big endian");
  OBL(get_int16_le(b) == (b[0] | (b[1] << 8)), "C20.getint: 16-bit little endian");
  OBL(get_int16_be(b) == (b[1] | (b[0] << 8)), "C20.getint: 16-bit big endian");
  CANARY("h_get_int end");
}
