/* C16 — memory-safety and termination contract of tokens_get, tokens_get_char, tokens_unget_char,
 * process_escape (core/tokens.cpp): for an ARBITRARY, UNBOUNDED character stream (getc contract: an arbitrary
 * byte or EOF per call, EOF is sticky) one call of tokens_get
 *   - stores only inside the caller's token[len] buffer and the tokenizer's unget[512] buffer,
 *   - leaves at most a small number of characters in the unget buffer (representation invariant of the
 *     tokenizer, inductive over calls: 0 <= unget_ptr <= UNGET_MAX on entry and on exit),
 *   - never iterates a loop again after it has read end of input (every loop consumes input and stops at EOF:
 *     termination in time proportional to the input),
 *   - reports an over-long token as an error instead of overrunning the buffer.
 * All seven loops are closed by DFCC loop contracts (tokens.loops.json).
 * macros_lookup/Symbols::lookup/Linker are contracts that find nothing (macro expansion = second harness).
 */
#include "stub_ctx.h"
#include <stdio.h>
#include <stdlib.h>
#include <string.h>
#include "core/Macros.h"
#include "core/Linker.h"
#include "core/tokens.h"

extern "C" { int g_nchars, g_eof, g_len; int *g_p_unget_ptr; char *g_p_unget; int *g_p_line; int *g_p_errcnt; int *g_p_tbptr; }
int macros_get_char(AsmContext *) { return CHAR_EOF; }
char *macros_lookup(Macros *, char *, int *) { return 0; }
int macros_push_define(Macros *, char *) { return 0; }
extern "C" char *macros_expand_params(AsmContext *, char *, int) { return 0; }
/* C20 (symbol discovery): imported object code is looked up - and thereby scheduled for placement - only for names the
   program USES: never while symbols are being ignored (the name after .set/.equ/.export/.define is being defined), only in
   pass 1, and only when the name is not already a symbol */
extern "C" { int g_ctx_ignore, g_ctx_pass, g_lookups; }
int Linker::search_code_from_symbol(const char *) { g_lookups++; OBL(g_ctx_ignore == 0 && g_ctx_pass == 1, "C20.discover: imported code is searched only for a name that is used (not while symbols are ignored) and only in pass 1"); return nondet_int() & 1; }
int Symbols::lookup(const char *, uint32_t *address) { *address = 0; return -1; }
extern "C" void exit(int c) { ASSUME(0); }
extern "C" int getc(FILE *f)
{
  if (g_eof) return EOF;
  g_nchars++; ASSUME(g_nchars < (1 << 28));
  int c = nondet_int(); ASSUME(c >= -1 && c <= 255);
  if (c == EOF) g_eof = 1;
  return c;
}
extern "C" int putc(int c, FILE *f) { return c; }
extern "C" int tolower(int c) { return (c >= 'A' && c <= 'Z') ? c + 32 : c; }
/* snprintf contract: the size argument fits the token buffer, and (C04) every number the tokenizer re-prints into the token is a
   signed decimal ("%d" or "%ld"): that is the spelling Var::set_int(const char *) reads back exactly (atoll) for all 64-bit values */
static int vs_snprintf(char *buf, size_t n, const char *f)
{
  OBL(n >= 2 && n <= __CPROVER_OBJECT_SIZE(buf) - __CPROVER_POINTER_OFFSET(buf), "C16.tokens: snprintf size argument fits the token buffer");
  OBL(f[0] == '%' && ((f[1] == 'd' && f[2] == 0) || (f[1] == 'l' && f[2] == 'd' && f[3] == 0)), "C04.lit: a numeric literal is re-printed into the token as a signed decimal (the form the expression evaluator reads back exactly)");
  buf[0] = '1'; buf[1] = 0; return 1;
}
#define snprintf(b, n, f, ...) vs_snprintf(b, n, f)
#define printf(...) (g_errors++, 0)
#include "core/tokens.cpp"
#undef snprintf
#undef printf

#ifndef UNGET_MAX
#define UNGET_MAX 2
#endif
static long g_file_obj[8];
extern "C" void h_tokens_get()
{
  AsmContext ctx;
  ctx.tokens.in = (FILE *)(void *)&g_file_obj[0]; ctx.tokens.token_buffer.code = 0; ctx.tokens.token_buffer.ptr = 0; ctx.list = 0; ctx.write_list_file = 0; static long lk_obj[16]; ctx.linker = (nondet_int() & 1) ? (Linker *)(void *)&lk_obj[0] : (Linker *)0;
  ctx.pass = 1 + (nondet_int() & 1); ctx.ignore_symbols = nondet_int() & 1; g_ctx_ignore = ctx.ignore_symbols; g_ctx_pass = ctx.pass; g_lookups = 0; ctx.parsing_ifdef = nondet_int() & 1;
  ctx.address = nondet_int(); ctx.bytes_per_address = 1; ctx.error_count = 0; ctx.macros.stack_ptr = 0;
  ctx.is_dollar_hex = nondet_int() & 1; ctx.strings_have_dots = nondet_int() & 1; ctx.strings_have_slashes = nondet_int() & 1; ctx.can_tick_end_string = nondet_int() & 1;
  ctx.numbers_dont_have_dots = nondet_int() & 1; ctx.ignore_number_postfix = nondet_int() & 1;
  ctx.tokens.line = 1; ctx.tokens.pushback[0] = 0; ctx.tokens.pushback2[0] = 0; ctx.tokens.unget_stack_ptr = 0; ctx.tokens.unget_stack[0] = 0;
  ctx.tokens.unget_ptr = nondet_int(); ASSUME(ctx.tokens.unget_ptr >= 0 && ctx.tokens.unget_ptr <= UNGET_MAX);
  g_p_unget_ptr = &ctx.tokens.unget_ptr; g_p_unget = &ctx.tokens.unget[0]; g_p_line = &ctx.tokens.line; g_p_errcnt = &ctx.error_count; g_p_tbptr = &ctx.tokens.token_buffer.ptr;
#ifndef TLEN
#define TLEN TOKENLEN
#endif
  g_nchars = 0; g_eof = 0; g_len = TLEN; g_errors = 0;
  char token[TLEN];
  int t = tokens_get(&ctx, token, TLEN);
  OBL(t >= -1 && t <= 11, "C16.tokens: a token type is returned");
  OBL(ctx.tokens.unget_ptr >= 0 && ctx.tokens.unget_ptr <= UNGET_MAX, "C16.tokens: the unget buffer holds at most a small constant number of characters after a token (inductive over calls)");
  CANARY("h_tokens_get end");
}
