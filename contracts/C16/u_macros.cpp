/* C16 — memory-safety and termination contracts of the macro machinery (core/Macros.cpp):
 *   macros_push_define   stack[MAX_NESTED_MACROS]: a push beyond the limit is refused, never stored
 *   macros_expand_params argument collection over an ARBITRARY, UNBOUNDED character stream
 *                        (params[1024], params_ptr[256]): every store in bounds, over-long argument
 *                        lists end in an error return (DFCC loop contracts on loops 0 and 1)
 *   macros_expand_params expansion into def_param_stack_data[4096] from any fill level (bounded body)
 * Obligations are CBMC's array-bounds / pointer checks on the real statements plus the stated postconditions.
 */
#include "stub_ctx.h"
#include "core/Macros.h"
#include "core/tokens.h"

extern "C" {
int g_nchars, g_eof_seen, g_script_len, g_script_pos; char g_script[12];
int *g_p_dpsc;
}
int tokens_get_char(AsmContext *asm_context)
{
  g_nchars++; ASSUME(g_nchars < (1 << 28));
#ifdef SCRIPTED
  if (g_script_pos < g_script_len) return (unsigned char)g_script[g_script_pos++];
  return '\n';
#else
  int c = nondet_int();
  ASSUME(c >= -1 && c <= 255);
  return c;
#endif
}
int tokens_unget_char(AsmContext *asm_context, int ch) { return 0; }
int tokens_get(AsmContext *asm_context, char *token, int len) { token[0] = 0; return TOKEN_EOF; }
int Symbols::lookup(const char *name, uint32_t *address) { return -1; }
/* DFCC cannot inline variadic callees: diagnostics are replaced by a macro that only records them */
#define printf(...) (g_errors++, 0)
#define fprintf(...) (0)
extern "C" void exit(int c) { ASSUME(0); }
#define KEEP_MACROS_CTORS
#include "core/MemoryPool.cpp"
#include "core/Macros.cpp"
#undef printf
#undef fprintf

extern "C" void h_push_define()
{
  Macros m;
  m.stack_ptr = nondet_int();
  ASSUME(m.stack_ptr >= 0 && m.stack_ptr <= MAX_NESTED_MACROS);     /* representation invariant of the expansion stack */
  int sp0 = m.stack_ptr;
  static char body[4];
  g_errors = 0;
  int r = macros_push_define(&m, body);
  if (sp0 >= MAX_NESTED_MACROS)
  {
    OBL(r == -1 && m.stack_ptr == sp0 && g_errors > 0, "C16.macros: nesting beyond the documented limit is refused with an error, nothing stored");
  }
  else
  {
    OBL(r == 0 && m.stack_ptr == sp0 + 1 && m.stack[sp0] == body, "C16.macros: a push within the limit stores the text and advances the stack");
  }
  OBL(m.stack_ptr >= 0 && m.stack_ptr <= MAX_NESTED_MACROS, "C16.macros: the expansion stack invariant is preserved");
  CANARY("h_push_define end");
}

/* argument collection: arbitrary unbounded stream, empty macro body */
extern "C" void h_expand_collect()
{
  AsmContext ctx;
  ctx.tokens.line = 1; ctx.tokens.filename = "x.asm"; ctx.pass = nondet_int(); ctx.error = 0;
  ctx.def_param_stack_count = nondet_int();
  ASSUME(ctx.def_param_stack_count >= 0 && ctx.def_param_stack_count < MAX_NESTED_MACROS);
  int k = ctx.def_param_stack_count;
  ctx.def_param_stack_ptr[k] = nondet_int();
  ASSUME(ctx.def_param_stack_ptr[k] >= 0 && ctx.def_param_stack_ptr[k] <= PARAM_STACK_LEN);
  int param_count = nondet_int();
  ASSUME(param_count >= 1 && param_count <= 255);
  static char define[2]; define[0] = 0;
  g_nchars = 0; g_errors = 0; g_p_dpsc = &ctx.def_param_stack_count;
  char *r = macros_expand_params(&ctx, define, param_count);
  if (r == 0) OBL(ctx.error == 1 || g_errors > 0, "C16.macros: a refused macro invocation is reported");
  else OBL(r >= ctx.def_param_stack_data && r < ctx.def_param_stack_data + PARAM_STACK_LEN, "C16.macros: the expansion lies inside the parameter stack buffer");
  OBL(ctx.def_param_stack_count >= 0 && ctx.def_param_stack_count <= MAX_NESTED_MACROS, "C16.macros: the parameter stack depth stays within its array");
  CANARY("h_expand_collect end");
}

/* C09 — expansion is textual substitution: for a macro body "<p1>+<p2>" and an invocation
 * "(A,B)" with A of 3 and B of 1 arbitrary ordinary characters (blanks allowed inside an argument),
 * the expansion is exactly A'+B where A' is A without its leading blanks.  BOUNDED (argument lengths). */
#ifdef SCRIPTED
static int ordinary(char c) { return c != ',' && c != '(' && c != ')' && c != '"' && c != '\'' && c != '\\' && c != '\n' && c != '\r' && c != '\t' && c != 0 && c != (char)0xff && c != 1; }
extern "C" void h_expand_script()
{
  AsmContext ctx;
  ctx.tokens.line = 1; ctx.tokens.filename = "x.asm"; ctx.pass = 2; ctx.error = 0;
  ctx.def_param_stack_count = 0; ctx.def_param_stack_ptr[0] = 0;
  char a0 = nondet_char(), a1 = nondet_char(), a2 = nondet_char(), b0 = nondet_char();
  ASSUME(ordinary(a0) && ordinary(a1) && ordinary(a2) && ordinary(b0) && a0 != ' ' && b0 != ' ');
  g_script[0] = '('; g_script[1] = ' '; g_script[2] = a0; g_script[3] = a1; g_script[4] = a2; g_script[5] = ','; g_script[6] = ' '; g_script[7] = b0; g_script[8] = ')';
  g_script_len = 9; g_script_pos = 0; g_nchars = 0; g_errors = 0;
  static char body[8]; body[0] = 1; body[1] = 1; body[2] = '+'; body[3] = 1; body[4] = 2; body[5] = 0;
  char *r = macros_expand_params(&ctx, body, 2);
  OBL(r != 0, "C09.expand: a well-formed invocation with the right number of arguments is expanded");
  if (r != 0)
  {
    OBL(r[0] == a0 && r[1] == a1 && r[2] == a2 && r[3] == '+' && r[4] == b0 && r[5] == 0, "C09.expand: the expansion is the body with each parameter replaced by its argument text, character for character");
    OBL(g_script_pos == 9, "C09.expand: the invocation is consumed up to its closing parenthesis and no further");
    OBL(ctx.def_param_stack_count == 1 && ctx.def_param_stack_ptr[1] == 6, "C09.expand: the parameter stack records the expansion");
  }
  /* wrong argument count */
  AsmContext ctx2; ctx2.tokens.line = 1; ctx2.tokens.filename = "x.asm"; ctx2.pass = 2; ctx2.error = 0; ctx2.def_param_stack_count = 0; ctx2.def_param_stack_ptr[0] = 0;
  g_script_pos = 0;
  char *r2 = macros_expand_params(&ctx2, body, 3);
  OBL(r2 == 0 && ctx2.error == 1, "C09.expand: a wrong number of arguments is an error that fails the assembly");
  CANARY("h_expand_script end");
}
#endif
