/* C06 — contract of get_operands (asm/riscv.cpp, the real translation unit is compiled) for the memory operand
 * "rd, N(rs1)" of the RV32I loads and stores: the operand value is kept exactly or the statement is rejected.
 * Token script: x<rd> , <number N> ( x<rs1> ) EOL with rd, rs1 in 0..31 and N any 32-bit value (eval_expression contract).
 * POST  either the statement is rejected (-1 and a diagnostic), or two operands are returned, the second is a register-offset
 *       operand for rs1 whose offset field equals N - never another value (the field is 16 bits wide: an N that does not
 *       fit must be rejected, not truncated).
 */
#include "stub_ctx.h"
#include <stdio.h>
#include <stdlib.h>
#include <string.h>
#include "core/tokens.h"
#include "core/eval_expression.h"
extern "C" { int g_pos, g_len, g_type[12]; char g_tok[12][4]; int g_N; }
int tokens_get(AsmContext *asm_context, char *token, int len)
{
  if (g_pos >= g_len) { token[0] = 0; return TOKEN_EOF; }      /* the script ends with an explicit end-of-line token */
  token[0] = g_tok[g_pos][0]; token[1] = g_tok[g_pos][1]; token[2] = g_tok[g_pos][2]; token[3] = 0;
  return g_type[g_pos++];
}
void tokens_push(AsmContext *asm_context, const char *token, int token_type) { if (g_pos > 0) g_pos--; }
int eval_expression(AsmContext *asm_context, int *num) { *num = g_N; g_pos++; return 0; }       /* consumes the number token */
int eval_expression(AsmContext *asm_context, Var &var) { return -1; }
int ignore_operand(AsmContext *asm_context) { return 0; }
int expect_token(AsmContext *, char) { return 0; }
void add_bin32(AsmContext *, uint32_t, int) {}
void add_bin16(AsmContext *, uint16_t, int) {}
int get_int(AsmContext *) { return 0; }
uint8_t Memory::read8(uint32_t a) { return 0; }
void Memory::write8(uint32_t a, uint8_t d) {}
void Memory::write(uint32_t a, uint8_t d, int line) {}
int Memory::read_debug(uint32_t a) { return 0; }
void Memory::write_debug(uint32_t a, int line) {}
#define printf(...) (g_errors++, 0)
#include "table/riscv.cpp"
#include "asm/riscv.cpp"
#undef printf
static void tk(int type, char a, char b, char c) { g_tok[g_len][0] = a; g_tok[g_len][1] = b; g_tok[g_len][2] = c; g_tok[g_len][3] = 0; g_type[g_len] = type; g_len++; }
static void reg(int r) { if (r < 10) tk(TOKEN_STRING, 'x', (char)('0' + r), 0); else tk(TOKEN_STRING, 'x', (char)('0' + r / 10), (char)('0' + r % 10)); }
extern "C" void h_riscv_ops()
{
  AsmContext ctx; ctx.pass = 2; ctx.address = 0; ctx.tokens.line = 1; ctx.tokens.filename = "x.asm";
  int rd = nondet_int(), rs1 = nondet_int(); g_N = nondet_int();
  ASSUME(rd >= 0 && rd <= 31 && rs1 >= 0 && rs1 <= 31);
  g_pos = 0; g_len = 0; g_errors = 0;
  reg(rd); tk(TOKEN_SYMBOL, ',', 0, 0); tk(TOKEN_NUMBER, '1', 0, 0); tk(TOKEN_SYMBOL, '(', 0, 0); reg(rs1); tk(TOKEN_SYMBOL, ')', 0, 0); tk(TOKEN_EOL, '\n', 0, 0);
  struct _operand operands[MAX_OPERANDS]; struct _modifiers modifiers; memset(&modifiers, 0, sizeof(modifiers));
  char instr[TOKENLEN] = "lw"; char instr_case[TOKENLEN] = "lw";
  int n = get_operands(&ctx, operands, instr, instr_case, &modifiers);
  if (n == -1)
  {
    OBL(g_errors > 0, "C06.rv: a rejected operand produces a diagnostic");
  }
  else
  {
    OBL(n == 2 && operands[0].type == OPERAND_X_REGISTER && operands[0].value == rd, "C06.rv: rd is recognised");
    OBL(operands[1].type == OPERAND_REGISTER_OFFSET && operands[1].value == rs1, "C06.rv: N(rs1) is a register-offset operand for rs1");
    OBL((int)operands[1].offset == g_N, "C06.rv: the offset of an accepted N(rs1) operand is exactly N (a value that does not fit the field is rejected, not truncated)");
  }
  CANARY("h_riscv_ops end");
}
