/* C06 — leaf contracts of check_range and get_reg_number (asm/common.cpp).
 * check_range: returns -1 (with a diagnostic) iff num < min or num > max, for all 2^32 x 2^32 x 2^32.
 * get_reg_number: for every string of at most 11 characters, returns the decimal value iff the string is a
 *   non-empty digit string whose (mathematical) value is <= max, else -1 — a register number is never wrapped.
 */
#include "stub_ctx.h"
#include "asm/common.h"
int tokens_get(AsmContext *, char *, int) { return TOKEN_EOF; }
void tokens_push(AsmContext *, const char *, int) {}
#include "asm/common.cpp"

extern "C" void h_check_range()
{
  AsmContext ctx;
  int num = nondet_int(), lo = nondet_int(), hi = nondet_int();
  g_errors = 0;
  int r = check_range(&ctx, "x", num, lo, hi);
  OBL((r == -1) == (num < lo || num > hi), "C06.range: rejected exactly when the value lies outside [min, max]");
  OBL(r == 0 || r == -1, "C06.range: result code is 0 or -1");
  OBL((r == -1) == (g_errors > 0), "C06.range: a rejected value is reported");
  CANARY("h_check_range end");
}

extern "C" void h_get_reg_number()
{
  char s[12];
  for (int i = 0; i < 11; i++) s[i] = nondet_char();
  s[11] = 0;
  int max = nondet_int(); ASSUME(max >= 0 && max < 100000);
  long long want = 0; int bad = 0, end = 0, n = 0;
  for (int i = 0; i < 11; i++)
  {
    if (!end)
    {
      if (s[i] == 0) end = 1;
      else if (s[i] < '0' || s[i] > '9') bad = 1;
      else { want = want * 10 + (s[i] - '0'); n++; }
    }
  }
  int r = get_reg_number(s, max);
  if (bad || n == 0 || want > max) OBL(r == -1, "C06.reg: anything but a digit string with a value <= max is rejected (no wrap-around)");
  else OBL(r == (int)want, "C06.reg: an in-range register number is returned as its decimal value");
  CANARY("h_get_reg_number end");
}
