/* C14 — contract of the MSP430 simulator (simulate/msp430.cpp) against the architecture:
 * spec_step() below is transcribed from SLAU144 (MSP430x2xx Family User's Guide) section 3.3
 * (addressing modes, constant generators) and 3.4 (instruction set, status bits).
 *
 * One obligation group per (format, operation, B/W, As, Ad) class; inside a class the register
 * numbers, all 16 register values, SR, and memory (lazy, symbolic) are arbitrary.
 * The real SimulateMsp430::run(-1, step=1) executes one instruction; afterwards every register,
 * SR, PC and every touched memory cell must equal the specification's.
 * Stated preconditions: PC even and below 0xfff0; word operands at even effective addresses below
 * 0xfffe (unaligned/wrapping word access is checked separately); SP even; r3 reads are constant
 * generators; cycle counts are not checked.
 */
#include <stdio.h>
#include <stdlib.h>
#include <string.h>
#include <signal.h>
#include <unistd.h>
#include "lazymem.h"
#include "simulate/Simulate.h"
#include "simulate/msp430.h"

extern "C" void exit(int) { ASSUME(0); }
extern "C" int usleep(unsigned) { return 0; }
extern "C" int getc(FILE *f) { return nondet_int(); }
extern "C" int putc(int c, FILE *f) { return c; }
extern "C" int fclose(FILE *f) { return 0; }
extern "C" int printf(const char *fmt, ...) { return 0; }
typedef void (*sighandler_t)(int);
extern "C" sighandler_t signal(int sig, sighandler_t h) { return 0; }

#include "simulate/Simulate.cpp"
#include "simulate/msp430.cpp"
#include "disasm/msp430.cpp"
#include "table/msp430.cpp"

typedef unsigned short u16;

/* ---------- specification (SLAU144 3.3, 3.4) ---------- */
struct Spec { u16 r[16]; unsigned wa[4]; unsigned char wv[4]; int wn; int bad; };
static u16 sp_read16(unsigned a) { return lm_read(a & 0xffff) | (lm_read((a + 1) & 0xffff) << 8); }
static void sp_write8(Spec &s, unsigned a, unsigned v) { s.wa[s.wn] = a & 0xffff; s.wv[s.wn] = (unsigned char)v; s.wn++; }
static void sp_write16(Spec &s, unsigned a, unsigned v) { sp_write8(s, a, v & 0xff); sp_write8(s, a + 1, v >> 8); }
#define F_C 1
#define F_Z 2
#define F_N 4
#define F_V 0x100
static void setf(Spec &s, int c, int z, int n, int v) { s.r[2] = (s.r[2] & ~(F_C | F_Z | F_N | F_V)) | (c ? F_C : 0) | (z ? F_Z : 0) | (n ? F_N : 0) | (v ? F_V : 0); }

/* source operand: value; also performs auto-increment and extension-word fetch */
static unsigned spec_src(Spec &s, int reg, int As, int bw)
{
  unsigned mask = bw ? 0xff : 0xffff;
  if (reg == 3) return (As == 0 ? 0 : As == 1 ? 1 : As == 2 ? 2 : 0xffff) & mask;          /* CG2 */
  if (reg == 2 && As == 2) return 4;                                                         /* CG1 */
  if (reg == 2 && As == 3) return 8;
  if (As == 0) return s.r[reg] & mask;
  if (As == 1)
  {
    unsigned x = sp_read16(s.r[0]);
    unsigned base = (reg == 2) ? 0 : s.r[reg];            /* absolute mode: SR reads as 0; symbolic: PC = address of the extension word */
    unsigned ea = (base + x) & 0xffff;
    s.r[0] += 2;
    if (!bw && ((ea & 1) || ea >= 0xfffe)) s.bad = 1;
    return bw ? lm_read(ea) : sp_read16(ea);
  }
  unsigned ea = s.r[reg];
  if (!bw && ((ea & 1) || ea >= 0xfffe)) s.bad = 1;
  unsigned v = bw ? lm_read(ea) : sp_read16(ea);
  if (As == 3) s.r[reg] += (bw && reg != 0 && reg != 1) ? 1 : 2;   /* PC and SP always step by 2 */
  return v;
}
/* destination: returns effective address (-1 = register) after fetching the extension word */
static int spec_dst_ea(Spec &s, int reg, int Ad, int bw)
{
  if (Ad == 0) return -1;
  unsigned x = sp_read16(s.r[0]);
  unsigned base = (reg == 2) ? 0 : s.r[reg];
  unsigned ea = (base + x) & 0xffff;
  s.r[0] += 2;
  if (!bw && ((ea & 1) || ea >= 0xfffe)) s.bad = 1;
  return (int)ea;
}
static unsigned spec_dst_read(Spec &s, int reg, int ea, int bw)
{
  if (ea < 0) return bw ? (s.r[reg] & 0xff) : s.r[reg];
  return bw ? lm_read(ea) : sp_read16(ea);
}
static void spec_dst_write(Spec &s, int reg, int ea, int bw, unsigned v)
{
  if (ea < 0) { s.r[reg] = bw ? (v & 0xff) : (v & 0xffff); return; }   /* byte write clears the high byte of a register */
  if (bw) sp_write8(s, ea, v); else sp_write16(s, ea, v);
}
static void spec_two(Spec &s, u16 opcode)
{
  int op = opcode >> 12, sreg = (opcode >> 8) & 15, Ad = (opcode >> 7) & 1, bw = (opcode >> 6) & 1, As = (opcode >> 4) & 3, dreg = opcode & 15;
  unsigned mask = bw ? 0xff : 0xffff, sign = bw ? 0x80 : 0x8000;
  unsigned src = spec_src(s, sreg, As, bw);
  int ea = spec_dst_ea(s, dreg, Ad, bw);
  unsigned dst = (op == 4) ? 0 : spec_dst_read(s, dreg, ea, bw);
  unsigned c = s.r[2] & 1, res = 0;
  switch (op)
  {
    case 4: spec_dst_write(s, dreg, ea, bw, src); break;                                               /* MOV */
    case 5: case 6: {                                                                                  /* ADD, ADDC */
      unsigned full = dst + src + (op == 6 ? c : 0); res = full & mask;
      spec_dst_write(s, dreg, ea, bw, res);
      setf(s, full > mask, res == 0, (res & sign) != 0, ((~(dst ^ src)) & (dst ^ res) & sign) != 0); break; }
    case 7: case 8: case 9: {                                                                          /* SUBC, SUB, CMP: dst + ~src + (1|C) */
      unsigned ns = (~(src)) & mask; unsigned full = dst + ns + (op == 7 ? c : 1); res = full & mask;
      if (op != 9) spec_dst_write(s, dreg, ea, bw, res);
      setf(s, full > mask, res == 0, (res & sign) != 0, ((dst ^ src) & (dst ^ res) & sign) != 0); break; }
    case 11: case 15: {                                                                                /* BIT, AND */
      res = src & dst & mask; if (op == 15) spec_dst_write(s, dreg, ea, bw, res);
      setf(s, res != 0, res == 0, (res & sign) != 0, 0); break; }
    case 12: spec_dst_write(s, dreg, ea, bw, (~(src)) & dst & mask); break;                              /* BIC */
    case 13: spec_dst_write(s, dreg, ea, bw, (src | dst) & mask); break;                               /* BIS */
    case 14: {                                                                                         /* XOR */
      res = (src ^ dst) & mask; spec_dst_write(s, dreg, ea, bw, res);
      setf(s, res != 0, res == 0, (res & sign) != 0, (src & sign) && (dst & sign)); break; }
    default: s.bad = 1; break;                                                                         /* DADD: see separate class */
  }
}
static void spec_one(Spec &s, u16 opcode)
{
  int o = (opcode >> 7) & 7, bw = (opcode >> 6) & 1, As = (opcode >> 4) & 3, reg = opcode & 15;
  unsigned mask = bw ? 0xff : 0xffff, sign = bw ? 0x80 : 0x8000, c = s.r[2] & 1;
  if (o == 4 || o == 5)                                                                                /* PUSH, CALL */
  {
    unsigned src = spec_src(s, reg, As, (o == 4) ? bw : 0);
    s.r[1] -= 2;
    if (o == 4) { sp_write16(s, s.r[1], src); }
    else { sp_write16(s, s.r[1], s.r[0]); s.r[0] = src; }
    return;
  }
  /* RRC, SWPB, RRA, SXT operate in place */
  int ea = -1; unsigned v;
  if (As == 0) { v = bw ? (s.r[reg] & 0xff) : s.r[reg]; }
  else if (As == 1) { ea = spec_dst_ea(s, reg, 1, bw); v = spec_dst_read(s, reg, ea, bw); }
  else { ea = s.r[reg]; if (!bw && ((ea & 1) || ea >= 0xfffe)) s.bad = 1; v = spec_dst_read(s, reg, ea, bw); }
  unsigned res = 0;
  switch (o)
  {
    case 0: res = ((v >> 1) | (c ? sign : 0)) & mask; spec_dst_write(s, reg, ea, bw, res); setf(s, v & 1, res == 0, (res & sign) != 0, 0); break;   /* RRC */
    case 1: res = ((v >> 8) | (v << 8)) & 0xffff; spec_dst_write(s, reg, ea, 0, res); break;                                                       /* SWPB */
    case 2: res = ((v >> 1) | (v & sign)) & mask; spec_dst_write(s, reg, ea, bw, res); setf(s, v & 1, res == 0, (res & sign) != 0, 0); break;     /* RRA */
    case 3: res = (v & 0x80) ? (v | 0xff00) & 0xffff : (v & 0xff); spec_dst_write(s, reg, ea, 0, res); setf(s, res != 0, res == 0, (res & 0x8000) != 0, 0); break; /* SXT */
    default: s.bad = 1; break;
  }
  if (As == 3) s.r[reg] += (bw && reg != 0 && reg != 1) ? 1 : 2;
}
static void spec_jump(Spec &s, u16 opcode)
{
  int cond = (opcode >> 10) & 7; int off = opcode & 0x3ff; if (off & 0x200) off -= 0x400;
  int c = s.r[2] & 1, z = (s.r[2] >> 1) & 1, n = (s.r[2] >> 2) & 1, v = (s.r[2] >> 8) & 1;
  int take = cond == 0 ? !z : cond == 1 ? z : cond == 2 ? !c : cond == 3 ? c : cond == 4 ? n : cond == 5 ? !(n ^ v) : cond == 6 ? (n ^ v) : 1;
  if (take) s.r[0] = (u16)(s.r[0] + 2 * off);
}

/* ---------- harness ---------- */
#ifndef FMT
#define FMT 2
#endif
#ifndef OP
#define OP 4
#endif
#ifndef BW
#define BW 0
#endif
#ifndef AS
#define AS 0
#endif
#ifndef AD
#define AD 0
#endif
#ifndef SREGSEL
#define SREGSEL 0   /* 0: general register 4..15, 1: r3 (constant generator), 2: r2, 3: r0 (PC), 4: r1 (SP) */
#endif

extern "C" void h_step()
{
  Memory m;
  lm_reset();
  SimulateMsp430 sim_obj(&m); SimulateMsp430 *sim = &sim_obj;
  lm_reset();                 /* the constructor's reset() fetched the reset vector; start the step from an empty view */
  for (int i = 0; i < 16; i++) sim->reg[i] = nondet_ushort();
  sim->show = false; sim->auto_run = false; sim->step_mode = true; sim->do_clear = false; sim->serial_in = 0; sim->serial_out = 0;
  sim->break_io = 0xffffffff; sim->break_point = -1; sim->cycle_count = 0; sim->nested_call_count = 0; sim->usec = 0;
  Simulate::stop_running = false;
  u16 pc = sim->reg[0];
  ASSUME((pc & 1) == 0 && pc < 0xfff0 && (sim->reg[1] & 1) == 0 && sim->reg[1] >= 4);
  unsigned sreg = nondet_uint(), dreg = nondet_uint();
  ASSUME(dreg >= 4 && dreg < 16);
#if SREGSEL == 0
  ASSUME(sreg >= 4 && sreg < 16);
#elif SREGSEL == 1
  ASSUME(sreg == 3);
#elif SREGSEL == 2
  ASSUME(sreg == 2);
#elif SREGSEL == 3
  ASSUME(sreg == 0);
#else
  ASSUME(sreg == 1);
#endif
  u16 opcode;
#if FMT == 2
  opcode = (u16)((OP << 12) | (sreg << 8) | (AD << 7) | (BW << 6) | (AS << 4) | dreg);
#elif FMT == 1
  opcode = (u16)(0x1000 | (OP << 7) | (BW << 6) | (AS << 4) | sreg);
#else
  { unsigned off = nondet_uint(); ASSUME(off < 0x400); opcode = (u16)(0x2000 | (OP << 10) | off); }
#endif
  lm_write(pc, opcode & 0xff); lm_write(pc + 1, opcode >> 8);
  g_lw[0] = 0; g_lw[1] = 0; g_l0[0] = opcode & 0xff; g_l0[1] = opcode >> 8;

  /* specification first (its reads populate the lazy memory; it writes nothing) */
  Spec sp; sp.wn = 0; sp.bad = 0;
  for (int i = 0; i < 16; i++) sp.r[i] = sim->reg[i];
  sp.r[0] += 2;
#if FMT == 2
  spec_two(sp, opcode);
#elif FMT == 1
  spec_one(sp, opcode);
#else
  spec_jump(sp, opcode);
#endif
  ASSUME(!sp.bad);            /* stated preconditions on operand addresses */

  int ret = sim->run(-1, 1);

  OBL(ret == 0, "C14.step: a defined instruction executes and returns control");
  OBL(!g_lm_overflow, "C14.step: the instruction touches a bounded number of memory cells");
  int regs_ok = 1;
  for (int i = 4; i < 16; i++) if (sim->reg[i] != sp.r[i]) regs_ok = 0;
  OBL(regs_ok, "C14.step: general registers r4..r15 equal the architecture's result");
  OBL(sim->reg[0] == sp.r[0], "C14.step: PC equals the architecture's result");
  OBL(sim->reg[1] == sp.r[1], "C14.step: SP equals the architecture's result");
  OBL((sim->reg[2] & 0x107) == (sp.r[2] & 0x107), "C14.step: status bits C, Z, N, V equal the architecture's result");
  OBL((sim->reg[2] & ~0x107) == (sp.r[2] & ~0x107), "C14.step: the other SR bits are unchanged");
  int mem_ok = 1;
  for (int i = 0; i < LM; i++)
  {
    if (i < g_ln)
    {
      unsigned char want = g_l0[i];
      for (int k = 0; k < 4; k++) if (k < sp.wn && sp.wa[k] == g_la[i]) want = sp.wv[k];
      if (g_lv[i] != want) mem_ok = 0;
    }
  }
  OBL(mem_ok, "C14.step: memory equals the architecture's result (destination written, everything else unchanged)");
  CANARY("h_step end");
}
