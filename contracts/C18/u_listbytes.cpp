/* C18 — contract of the per-CPU listing formatters of the "byte column" family (list_output_6800, _6809, _68hc08: same
 * shape, instantiated with -DLISTFN/-DDISFN/-DMAXLEN/-DDISHDR/-DLISTINC): the formatter text is extracted verbatim,
 * disasm_<cpu> is replaced by its C08 contract (a length of 1..MAXLEN bytes).
 * PRE   any start <= end below 2^31, any memory content, any flags.
 * POST  the bytes of [start, end) are shown exactly once each, in increasing address order (every Memory::read8 of the
 *       formatter is the next byte of the range), one line per instruction labelled with the instruction's address; the
 *       byte column is built inside its buffer (ghost string lengths through the snprintf / strcat contracts); the loop
 *       ends at the first instruction boundary at or after `end`.  Both loops under DFCC loop contracts (any range).
 */
#include "stub_ctx.h"
#include <stdio.h>
#include <stdlib.h>
#include <string.h>
#define VSTR(x) #x
#define VXSTR(x) VSTR(x)
extern "C" { unsigned g_next_byte, g_next_line, g_start0, g_end; int g_ok, g_bad_format, g_tlen, g_blen; }
uint8_t Memory::read8(uint32_t a) { if (a != g_next_byte) g_ok = 0; g_next_byte++; return nondet_uchar(); }
static int vs_snprintf(char *d, size_t n, const char *f, unsigned v)
{
  OBL(f[0] == '%' && f[4] == ' ' && f[5] == 0 && v <= 0xff && n >= 4 && n <= __CPROVER_OBJECT_SIZE(d) - __CPROVER_POINTER_OFFSET(d), "C18.listing: the byte is formatted inside its temporary buffer");
  g_tlen = 3; d[0] = 'x';
  return 3;
}
static char *vs_strcat(char *d, const char *s)
{
  if (d[0] == 0) g_blen = 0;
  OBL((size_t)(g_blen + g_tlen + 1) <= __CPROVER_OBJECT_SIZE(d) - __CPROVER_POINTER_OFFSET(d), "C18.listing: the byte column fits its buffer");
  g_blen += g_tlen; d[0] = 'x';
  return d;
}
static int vf_printf(FILE *o, const char *f) { if (!(f[0] == '\n' && f[1] == 0)) g_bad_format = 1; return 0; }
static int vf_printf(FILE *o, const char *f, int a) { if (!(f[0] == '%' && f[1] == 'd')) g_bad_format = 1; return 0; }
static int vf_printf(FILE *o, const char *f, int a, int b) { if (!(f[0] == '%' && f[1] == 'd' && f[2] == '-')) g_bad_format = 1; return 0; }
static int vf_printf(FILE *o, const char *f, uint32_t a, char *b, char *i) { if (f[0] == '0' && f[1] == 'x' && f[2] == '%') { if (a != g_next_line) g_ok = 0; } else g_bad_format = 1; return 0; }
#define fprintf vf_printf
#define printf(...) (0)
#define snprintf vs_snprintf
#define strcat vs_strcat
#include VXSTR(DISHDR)
int DISFN(Memory *memory, uint32_t address, char *instruction, int length, int flags, int *cycles_min, int *cycles_max)
{
  OBL(length == 128 && __CPROVER_OBJECT_SIZE(instruction) - __CPROVER_POINTER_OFFSET(instruction) >= 128, "C18.listing: the disassembler is given the formatter's 128-byte text buffer");
  instruction[0] = 0;
  *cycles_min = nondet_int(); *cycles_max = nondet_int();
  int k = nondet_int(); ASSUME(k >= 1 && k <= MAXLEN);
  g_next_line = address;
  return k;
}
#include VXSTR(LISTINC)
#undef fprintf
#undef printf
#undef snprintf
#undef strcat
static long g_list_file[4];
extern "C" void h_listbytes()
{
  AsmContext ctx; ctx.list = (FILE *)(void *)&g_list_file[0]; ctx.flags = nondet_uint();
  unsigned start = nondet_uint(), end = nondet_uint();
  ASSUME(start <= end && end < (1u << 31));
  g_start0 = start; g_end = end; g_next_byte = start; g_next_line = start; g_ok = 1; g_bad_format = 0; g_tlen = 0; g_blen = 0;
  LISTFN(&ctx, start, end);
  OBL(g_ok, "C18.listing: every byte of the range is shown exactly once, in increasing order, on the line of its instruction");
  OBL(!g_bad_format, "C18.listing: every line is written with one of the formatter's formats");
  OBL(g_next_byte >= end && g_next_byte - end < MAXLEN, "C18.listing: the listing covers the range up to the first instruction boundary at or after its end");
  CANARY("h_listbytes end");
}
