/* C18/C08 — contract of a per-CPU listing formatter, instantiated for list_output_tms9900 (disasm/tms9900.cpp) with the real
 * disasm_tms9900 and the real table_tms9900[]:
 * PRE   any start <= end (even, below 2^31), any memory content (memory is an arbitrary FUNCTION of the address: the
 *       disassembler and the formatter see the same bytes), any flags.
 * POST  the listing shows the words of [start, end) one per line, in increasing address order, each exactly once, each with
 *       the address it has in memory and the value memory holds there; the loop ends at the first instruction boundary
 *       >= end (it overshoots by less than the longest instruction); every line is produced with one of the formatter's
 *       formats.  The range loop is closed by a DFCC loop contract (any range length); the variant is end - start, which
 *       decreases because the disassembler reports at least one word (C08 contract, re-established here on the real code).
 */
#include "stub_ctx.h"
#include <stdio.h>
#include <stdlib.h>
#include <string.h>
extern "C" {
unsigned g_next, g_start0, g_end; int g_ok, g_lines, g_bad_format;
unsigned short __CPROVER_uninterpreted_mem16(unsigned a);
}
#if LISTCPU == 9900
uint16_t Memory::read16(uint32_t a) { return __CPROVER_uninterpreted_mem16(a); }
uint8_t Memory::read8(uint32_t a) { return (uint8_t)(__CPROVER_uninterpreted_mem16(a & ~1u) >> ((a & 1) ? 0 : 8)); }
#else
extern "C" unsigned char __CPROVER_uninterpreted_mem8(unsigned a);
uint8_t Memory::read8(uint32_t a) { return __CPROVER_uninterpreted_mem8(a); }
uint16_t Memory::read16(uint32_t a) { return (uint16_t)(__CPROVER_uninterpreted_mem8(a) | (__CPROVER_uninterpreted_mem8(a + 1) << 8)); }
#endif
int Memory::read_debug(uint32_t a) { return nondet_int(); }
/* string-abstract formatting contracts (the text of the instruction is decided in C08) */
extern "C" char *strcat(char *d, const char *s) { return d; }
extern "C" char *strcpy(char *d, const char *s) { d[0] = 0; return d; }
extern "C" int snprintf(char *d, size_t n, const char *f, ...) { d[0] = 0; return 0; }
extern "C" int sprintf(char *d, const char *f, ...) { d[0] = 0; return 0; }
#if LISTCPU == 9900
/* ghost reader of the listing: one overload per argument shape the formatter uses */
static void line(unsigned addr, unsigned value)
{
  if (addr != g_next) g_ok = 0;                                  /* next word of the range, in order, no gap, no repeat */
  if (value != __CPROVER_uninterpreted_mem16(addr)) g_ok = 0;    /* shown value is the word at the shown address */
  g_next += 2; g_lines++;
}
static int vf_printf(FILE *o, const char *f) { if (!(f[0] == '\n' && f[1] == 0)) g_bad_format = 1; return 0; }
static int vf_printf(FILE *o, const char *f, int a) { if (!(f[0] == '%' && f[1] == 'd')) g_bad_format = 1; return 0; }
static int vf_printf(FILE *o, const char *f, int a, int b) { if (!(f[0] == '%' && f[1] == 'd' && f[2] == '-')) g_bad_format = 1; return 0; }
static int vf_printf(FILE *o, const char *f, uint32_t a, uint32_t v) { if (f[0] == '0' && f[1] == 'x' && f[8] == '%' && f[12] == '\n') line(a, v); else g_bad_format = 1; return 0; }
static int vf_printf(FILE *o, const char *f, uint32_t a, uint32_t v, char *s) { if (f[0] == '0' && f[1] == 'x' && f[8] == '%' && f[13] == '%') line(a, v); else g_bad_format = 1; return 0; }
#define fprintf vf_printf
#define printf(...) (0)
#include "disasm/tms9900.h"
/* disasm_tms9900 is replaced by its contract (discharged on the real code by C08/disasm_tms9900): it reports a length of
   2, 4 or 6 bytes and some cycle counts; the listing formatter's text is extracted verbatim (tools/prep_tree.py EXTRACT) */
int disasm_tms9900(Memory *memory, uint32_t address, char *instruction, int length, int flags, int *cycles_min, int *cycles_max)
{
  OBL(length == 128 && __CPROVER_OBJECT_SIZE(instruction) - __CPROVER_POINTER_OFFSET(instruction) >= 128, "C18.listing: the disassembler is given the formatter's 128-byte text buffer");
  instruction[0] = 0;
  *cycles_min = nondet_int(); *cycles_max = nondet_int();
  int k = nondet_int() % 3; if (k < 0) k = -k;
  return 2 + 2 * k;
}
#include "gen/list_output_tms9900.inc"
#undef fprintf
#undef printf
#define CALL_LIST(ctx, start, end) list_output_tms9900(ctx, start, end)
#define MAXINSN 6
#elif LISTCPU == 430
/* msp430 / msp430x: list_output_msp430_both (static, extracted verbatim); words are read bytewise, little endian */
static void line(unsigned addr, unsigned value)
{
  if (addr != g_next) g_ok = 0;
  if (value != ((unsigned)__CPROVER_uninterpreted_mem8(addr) | ((unsigned)__CPROVER_uninterpreted_mem8(addr + 1) << 8))) g_ok = 0;
  g_next += 2; g_lines++;
}
static int is_line_fmt(const char *f) { return f[0] == '0' && f[1] == 'x' && f[2] == '%' && f[8] == '0' && f[9] == 'x' && f[10] == '%'; }
static int vf_printf(FILE *o, const char *f) { if (!(f[0] == '\n' && f[1] == 0)) g_bad_format = 1; return 0; }
static int vf_printf(FILE *o, const char *f, uint32_t a, int v) { if (is_line_fmt(f) && f[14] == '\n') line(a, (unsigned)v); else g_bad_format = 1; return 0; }
static int vf_printf(FILE *o, const char *f, uint32_t a, int v, char *s) { if (is_line_fmt(f) && f[14] == ' ') line(a, (unsigned)v); else g_bad_format = 1; return 0; }
static int vf_printf(FILE *o, const char *f, uint32_t a, int v, char *s, int c) { if (is_line_fmt(f) && f[14] == ' ') line(a, (unsigned)v); else g_bad_format = 1; return 0; }
#define fprintf vf_printf
#define printf(...) (0)
#include "disasm/msp430.h"
/* disasm_msp430 / disasm_msp430x are replaced by their contract (C08/disasm_msp430 on the real code): a length of 2..8 bytes, even */
static int dis_contract(char *instruction, int length, int *cycles_min, int *cycles_max)
{
  OBL(length == 128 && __CPROVER_OBJECT_SIZE(instruction) - __CPROVER_POINTER_OFFSET(instruction) >= 128, "C18.listing: the disassembler is given the formatter's 128-byte text buffer");
  instruction[0] = 0;
  *cycles_min = nondet_int(); *cycles_max = nondet_int();
  int k = nondet_int() & 3;
  return 2 + 2 * k;
}
int disasm_msp430(Memory *memory, uint32_t address, char *instruction, int length, int flags, int *cycles_min, int *cycles_max) { return dis_contract(instruction, length, cycles_min, cycles_max); }
int disasm_msp430x(Memory *memory, uint32_t address, char *instruction, int length, int flags, int *cycles_min, int *cycles_max) { return dis_contract(instruction, length, cycles_min, cycles_max); }
#include "gen/list_output_msp430_both.inc"
#undef fprintf
#undef printf
#define CALL_LIST(ctx, start, end) list_output_msp430_both(ctx, start, end, (nondet_int() & 1) != 0)
#define MAXINSN 8
#endif
static long g_list_file[4];
extern "C" void h_listfmt()
{
  AsmContext ctx; ctx.list = (FILE *)(void *)&g_list_file[0]; ctx.flags = nondet_uint();
  unsigned start = nondet_uint(), end = nondet_uint();
  ASSUME(start <= end && end < (1u << 31) && (start & 1) == 0);
  g_start0 = start; g_end = end; g_next = start; g_ok = 1; g_lines = 0; g_bad_format = 0;
  CALL_LIST(&ctx, start, end);
  OBL(g_ok, "C18.listing: every line shows the next word of the range with the value memory holds at that address (in order, no gap, no repeat)");
  OBL(!g_bad_format, "C18.listing: every line is written with one of the formatter's formats");
  OBL(g_next >= end && g_next - end < MAXINSN && g_lines == (int)((g_next - start) / 2), "C18.listing: the listing covers the range up to the first instruction boundary at or after its end");
  CANARY("h_listfmt end");
}
