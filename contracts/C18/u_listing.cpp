/* C18 — contract of the "data sections" dump that main() (main/naken_asm.cpp) writes into the listing:
 * every data byte of the image is shown exactly once, with its value, on a line whose address label plus the
 * byte's column is the byte's address; bytes that are not data are not shown by this dump.
 *
 * Image: arbitrary low <= high < 2^32-1, projected on one witness address W with ghost (is data?, value);
 * every other address has an arbitrary marker/value.  bytes_per_address in {1,2,4}.
 * The dump loop is closed by a DFCC loop contract (any range), output_hex_text by its own loop contract.
 * fprintf is a contract that recognises the dump's formats and feeds a ghost reader of the listing.
 */
#include <stdio.h>
#include <stdlib.h>
#include <string.h>
#include <unistd.h>
#include "vh.h"
#include "core/AsmContext.h"
#include "fileio/file.h"

extern "C" {
unsigned g_low, g_high, g_W; int g_W_is_data; unsigned char g_W_val; int g_bpa;
int g_hits; unsigned char g_hit_val; int g_hit_addr_ok; unsigned g_last_read;
unsigned g_label; int g_have_label; int g_col; int g_bad_format; int g_started;
unsigned *g_p_low, *g_p_high;
}
Memory::Memory() {} Memory::~Memory() {}
Symbols::Symbols() {} Symbols::~Symbols() {} Macros::Macros() {} Macros::~Macros() {}
AsmContext::AsmContext()
{
  list = 0; quiet_output = 1; bytes_per_address = BPA; pass = 1; linker = 0; dump_symbols = 0; dump_macros = 0; optimize = 0; write_list_file = 0;
  memory.low_address = g_low; memory.high_address = g_high;
}
AsmContext::~AsmContext() {}
void AsmContext::init() {}
void AsmContext::print_info(FILE *out) {}
int AsmContext::link_file(const char *filename) { return -1; }
int AsmContext::assemble() { return 0; }
int AsmContext::link() { return 0; }
int Memory::read_debug(uint32_t address)
{
  if (address == g_W) return g_W_is_data ? DL_DATA : DL_EMPTY;
  return nondet_int();
}
uint8_t Memory::read8(uint32_t address) { g_last_read = address; if (address == g_W) return g_W_val; return nondet_uchar(); }
int tokens_open_file(AsmContext *asm_context, const char *filename) { static long f[4]; asm_context->tokens.in = (FILE *)(void *)&f[0]; return 0; }
int include_add_path(AsmContext *asm_context, const char *paths) { return 0; }
int file_write(const char *filename, AsmContext *asm_context, int file_type) { return 0; }
static long g_list_file[8];
extern "C" {
FILE *fopen(const char *name, const char *mode) { return (FILE *)(void *)&g_list_file[0]; }
int fclose(FILE *f) { return 0; }
int unlink(const char *name) { return 0; }
void exit(int code) { ASSUME(0); }
int putc(int c, FILE *f) { return c; }
}
int vf_printf(FILE *out, const char *fmt, long A0 = 0, long A1 = 0, long A2 = 0)
{
  if (fmt[0] == 'd' && fmt[1] == 'a') { g_started = 1; }                                        /* "data sections:" */
  else if (fmt[0] == '\n' && fmt[1] == '%') { g_label = (unsigned)A0; g_have_label = 1; g_col = 0; }   /* "\n%04x:" line label */
  else if (fmt[0] == ' ' && fmt[1] == '%')                                                      /* " %02x" one byte */
  {
    /* the byte shown is the one main() has just read; its place is column g_col of the line labelled g_label */
    if (g_last_read == g_W)
    {
      g_hits++; g_hit_val = (unsigned char)A0;
      g_hit_addr_ok = (g_have_label && g_col >= 0 && g_col < 16 && g_label == (g_W - (unsigned)g_col) / BPA);
    }
    g_col++;
  }
  else if (fmt[0] == '%' && fmt[1] == 's') { }                                                  /* ASCII column */
  else if (fmt[0] == '\n' && fmt[1] == '\n') { }
  else { g_bad_format = 1; }
  return 0;
}
int vf_printf(FILE *out, const char *fmt, char *s) { return 0; }          /* "%s" ASCII column */
#define printf(...) (0)
#define puts(x) (0)
#define fprintf vf_printf
#define main naken_main
#include "main/naken_asm.cpp"
#undef main
#undef fprintf
#undef printf
#undef puts

extern "C" void h_listing()
{
  char a0[2], a1[3], a2[6];
  a0[0] = 'n'; a0[1] = 0; a1[0] = '-'; a1[1] = 'l'; a1[2] = 0; a2[0] = 'x'; a2[1] = '.'; a2[2] = 'a'; a2[3] = 's'; a2[4] = 'm'; a2[5] = 0;
  char *argv[4]; argv[0] = a0; argv[1] = a1; argv[2] = a2; argv[3] = 0;
  g_low = nondet_uint(); g_high = nondet_uint();
  ASSUME(g_low <= g_high);   /* any range, including one that ends at 0xffffffff */
  g_W = nondet_uint(); g_W_is_data = nondet_int() & 1; g_W_val = nondet_uchar();
  g_hits = 0; g_hit_addr_ok = 0; g_have_label = 0; g_col = 0; g_bad_format = 0; g_started = 0; g_last_read = 0; g_label = 0;
  int r = naken_main(3, argv);
  OBL(r == 0 && g_started, "C18.listing: with -l the data-section dump is written");
  OBL(!g_bad_format, "C18.listing: only the dump's formats are used");
  if (g_W >= g_low && g_W <= g_high && g_W_is_data)
  {
    OBL(g_hits == 1 && g_hit_val == g_W_val, "C18.listing: every data byte of the image is shown exactly once with its value");
    OBL(g_hit_addr_ok, "C18.listing: a byte is shown on the line whose address label plus its column is the byte's address");
  }
  else OBL(g_hits == 0, "C18.listing: bytes that are not data (or outside the image) are not shown by the dump");
  CANARY("h_listing end");
}
