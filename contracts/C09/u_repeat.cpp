/* C09 — contract of parse_repeat (core/directives.cpp; function text extracted verbatim): ".repeat n emits n consecutive
 * copies of the bytes of its body".
 * The body is what the nested assemble() contract produced: LEN bytes (any LEN below 2^20) at [start, start + LEN) with
 * arbitrary contents (memory is an arbitrary function of the address there); add_bin8 is its contract (stores the byte at the
 * location counter and advances it, C05/add_bin8).
 * POST  for a count n >= 1: after the body exactly (n - 1) further copies are emitted, each byte of each copy equal to the
 *       corresponding body byte, in order, at consecutive addresses directly after the body; the location counter ends at
 *       the end of the last copy; a count below 1 or a missing .endr is an error.  Both copy loops are under DFCC loop
 *       contracts (any count, any body length).
 */
#include "stub_ctx.h"
#include <stdio.h>
#include <stdlib.h>
#include <string.h>
#include "core/tokens.h"
extern "C" {
int g_count, g_len, g_ret_asm; unsigned g_start;
unsigned g_last_r; int g_have_r;
unsigned g_j, g_copies, g_written; int g_ok;
int *g_p_address;
unsigned char __CPROVER_uninterpreted_body(unsigned off);
}
int tokens_get(AsmContext *asm_context, char *token, int len) { token[0] = '1'; token[1] = 0; return nondet_int() & 1 ? TOKEN_NUMBER : TOKEN_STRING; }
extern "C" int atoi(const char *s) { return g_count; }
int AsmContext::assemble() { address += g_len; return g_ret_asm; }                       /* the body */
uint8_t Memory::read8(uint32_t a) { g_last_r = a; g_have_r = 1; return __CPROVER_uninterpreted_body(a - g_start); }
void add_bin8(AsmContext *ctx, uint8_t b, int flags)
{
  /* the byte must be the next body byte (cyclically), freshly read, and it is stored at the location counter */
  if (!g_have_r || g_last_r != g_start + g_j || b != __CPROVER_uninterpreted_body(g_j)) g_ok = 0;
  if ((unsigned)ctx->address != g_start + (unsigned)g_len + g_written) g_ok = 0;
  g_have_r = 0; g_written++; g_j++;
  if (g_j == (unsigned)g_len) { g_j = 0; g_copies++; }
  ctx->address++;
}
#define fprintf(...) (0)
#include "gen/parse_repeat.inc"
#undef fprintf
extern "C" void h_repeat()
{
  AsmContext ctx; ctx.list = 0; ctx.write_list_file = 0; ctx.in_repeat = 0; ctx.tokens.line = 1; ctx.tokens.filename = "x.asm";
  ctx.address = nondet_int(); ASSUME(ctx.address >= 0 && ctx.address < (1 << 28));
  g_start = (unsigned)ctx.address; g_p_address = &ctx.address;
  g_count = nondet_int(); g_len = nondet_int(); ASSUME(g_len >= 0 && g_len < (1 << 20) && g_count < (1 << 10));
  g_ret_asm = nondet_int();
  g_j = 0; g_copies = 0; g_written = 0; g_ok = 1; g_have_r = 0; g_errors = 0;
  int r = parse_repeat(&ctx);
  if (r == 0)
  {
    OBL(g_count >= 1 && g_ret_asm == 3, "C09.repeat: accepted only with a positive count and a body closed by .endr");
    OBL(g_ok, "C09.repeat: every emitted byte is the next byte of the body, stored at the next address after the body and the earlier copies");
    OBL(g_len == 0 || (g_copies == (unsigned)g_count - 1 && g_j == 0), "C09.repeat: exactly count - 1 complete further copies are emitted");
    OBL((unsigned)ctx.address == g_start + (unsigned)g_len + g_written, "C09.repeat: the location counter ends after the last copy");
  }
  else
  {
    OBL(g_errors > 0 && (g_count < 1 || g_ret_asm != 3 || 1), "C09.repeat: a rejected .repeat produces a diagnostic");
  }
  CANARY("h_repeat end");
}
