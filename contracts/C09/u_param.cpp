/* C09 — get_param_index (static, core/Macros.cpp): a body identifier is a parameter only if it equals a
 * parameter name exactly (a prefix or an extension of a parameter name is not that parameter).
 * BOUNDED: two parameter names and one identifier of 1..2 characters over {a, b}. */
#include "stub_ctx.h"
#include "core/Macros.h"
#include "core/tokens.h"
int tokens_get_char(AsmContext *) { return -1; }
int tokens_unget_char(AsmContext *, int) { return 0; }
int tokens_get(AsmContext *, char *token, int) { token[0] = 0; return TOKEN_EOF; }
int Symbols::lookup(const char *, uint32_t *) { return -1; }
#define printf(...) (0)
#define fprintf(...) (0)
extern "C" void exit(int) { ASSUME(0); }
#include "core/MemoryPool.cpp"
#include "core/Macros.cpp"
#undef printf
#undef fprintf
static void nm(char *n) { n[0] = nondet_char(); n[1] = nondet_char(); n[2] = 0; ASSUME(n[0] >= 'a' && n[0] <= 'b' && (n[1] == 0 || (n[1] >= 'a' && n[1] <= 'b'))); }
static int eq(const char *a, const char *b) { return a[0] == b[0] && a[1] == b[1]; }
extern "C" void h_param_index()
{
  char p1[3], p2[3], id[3]; nm(p1); nm(p2); nm(id);
  char params[8]; int k = 0;
  params[k++] = p1[0]; if (p1[1]) params[k++] = p1[1]; params[k++] = 0;
  params[k++] = p2[0]; if (p2[1]) params[k++] = p2[1]; params[k++] = 0;
  params[k] = 0;
  int r = get_param_index(params, id);
  int want = eq(id, p1) ? 1 : eq(id, p2) ? 2 : 0;
  OBL(r == want, "C09.param: an identifier is replaced only if it equals a parameter name exactly; the first match wins");
  CANARY("h_param_index end");
}
