/* C17 — safety/termination contracts of the file readers' primitives:
 *   FileIo::get_string_at_offset (fileio/FileIo.cpp): for ANY file content (unbounded stream contract for
 *     getc) and any buffer length >= 2 the copy stays inside the caller's buffer and is NUL terminated
 *     (DFCC loop contract: 0 <= ptr < length - 1).
 *   read_hex (fileio/read_hex.cpp): BOUNDED stand-in - for every file of at most NCH characters (all
 *     symbolic, then EOF forever) the loader returns; every loop consumes input or ends at EOF, so the
 *     unwinding bound is part of the specification here (a loop that ignores EOF fails it).
 */
#include <stdio.h>
#include <stdlib.h>
#include <string.h>
#include "vh.h"
#include "core/Memory.h"
#include "fileio/FileIo.h"

extern "C" { int g_nchars; int g_nwrites; int *g_p_dummy; }
#ifndef MAXBUF
#define MAXBUF 130
#endif
#ifndef NCH
#define NCH 1000000000
#endif
extern "C" int getc(FILE *f)
{
  if (g_nchars >= NCH) return EOF;
  g_nchars++;
  int c = nondet_int(); ASSUME(c >= -1 && c <= 255);
  return c;
}
extern "C" long ftell(FILE *f) { return nondet_int(); }
extern "C" int fseek(FILE *f, long o, int w) { return 0; }
static long g_file_obj[64];
extern "C" FILE *fopen(const char *n, const char *m) { return (nondet_int() & 1) ? (FILE *)(void *)&g_file_obj[0] : (FILE *)0; }
extern "C" int fclose(FILE *f) { return 0; }
extern "C" size_t fread(void *p, size_t s, size_t n, FILE *f) { return 0; }
extern "C" int putc(int c, FILE *f) { return c; }
#define printf(...) (0)
Memory::Memory() {} Memory::~Memory() {}
void Memory::clear() {}
void Memory::write8(uint32_t address, uint8_t data) { g_nwrites++; }
#include "fileio/FileIo.cpp"
#include "fileio/read_hex.cpp"
#undef printf

extern "C" void h_get_string()
{
  FileIo f; f.fp = (FILE *)(void *)&g_file_obj[0];
  int length = nondet_int(); ASSUME(length >= 2 && length <= MAXBUF);
  char *buf = (char *)malloc(length); ASSUME(buf != 0);
  g_nchars = 0;
  int r = f.get_string_at_offset(buf, length, (uint64_t)nondet_ull());
  OBL(r == 0, "C17.fileio: get_string_at_offset returns");
  int nul = 0; for (int i = 0; i < MAXBUF; i++) if (i < length && buf[i] == 0) nul = 1;
  OBL(nul, "C17.fileio: the copied name is NUL terminated inside the caller's buffer");
  CANARY("h_get_string end");
}

extern "C" void h_read_hex()
{
  Memory m; g_nchars = 0; g_nwrites = 0;
  int r = read_hex("x.hex", &m);
  OBL(r >= -4, "C17.hex: the loader returns a start address or an error code");
  OBL(g_nwrites <= 255 * NCH, "C17.hex: the loader stores a bounded number of bytes per record");
  CANARY("h_read_hex end");
}
