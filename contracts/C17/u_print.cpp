/* C17/C19 — contract of the interactive memory dump commands UtilContext::print8 / print16 / print32
 * (core/UtilContext.cpp; the three function bodies are extracted verbatim by tools/prep_tree.py, the rest of the
 * class is replaced by contracts):
 * PRE   get_range contract: any start, any end (0..2^32-1), or "no range" (-1); any memory content; alignment 1, 2 or 4;
 *       bytes_per_address 1, 2 or 4.  BOUNDED: ranges of at most RANGE bytes (start >= end selects the default 128).
 * POST  every store into the 20-byte line buffer chars[] is in bounds (CBMC bounds checks);
 *       the dump loop ends after at most (range / width) + 1 iterations - the unwinding bound is the termination
 *       obligation here (an address that wraps around 2^32 and never reaches `end` fails it).
 */
#include <stdio.h>
#include <stdlib.h>
#include <string.h>
#include "vh.h"
#include "common/String.h"
#include "core/AsmContext.h"
#include "core/UtilContext.h"
#ifndef RANGE
#define RANGE 40
#endif
extern "C" { unsigned g_start, g_end; int g_rc; int g_lines; }
Memory::Memory() {} Memory::~Memory() {}
uint8_t Memory::read8(uint32_t address) { return nondet_uchar(); }
uint16_t Memory::read16(uint32_t address) { return nondet_ushort(); }
uint32_t Memory::read32(uint32_t address) { return nondet_uint(); }
Symbols::Symbols() {} Symbols::~Symbols() {}
UtilContext::UtilContext() {} UtilContext::~UtilContext() {}
int UtilContext::get_range(const char *text, uint32_t *start, uint32_t *end) { *start = g_start; *end = g_end; return g_rc; }
#define printf(...) (g_lines++, 0)
#include VERIF_PRINT_INC
#undef printf
extern "C" void h_print()
{
  UtilContext u;
  int a = nondet_int() & 3; u.alignment = a == 0 ? 1 : a == 1 ? 2 : 4;
  int b = nondet_int() & 3; u.bytes_per_address = b == 0 ? 1 : b == 1 ? 2 : 4;
  g_start = nondet_uint(); g_end = nondet_uint(); g_rc = (nondet_int() & 1) ? 0 : -1; g_lines = 0;
  ASSUME(g_start >= g_end || g_end - g_start <= RANGE);
  u.PRINTFN("x");
  CANARY("h_print end");
}
