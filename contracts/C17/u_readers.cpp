/* C17 — termination and memory-safety contracts of the object-file readers, for ANY file content of ANY length:
 *   read_bin, read_ti_txt, read_wdc(+read_int24), read_hex(+get_hex), read_srec(+get_hex, ignore_line), read_uf2(+read_block)
 * The file is the stream contract of getc: an arbitrary byte or EOF per call, EOF is sticky, g_nchars counts the
 * characters consumed (streams shorter than 2^28 characters).  fread delivers arbitrary bytes.
 * POST (per reader, every loop under a DFCC loop contract - no unwinding bound):
 *   - every loop has a variant: either a counter bounded by a value read from the file (<= 2^24) or the stream
 *     measure 2^28 - g_nchars, which only decreases while input is consumed: no loop iterates again at EOF;
 *   - every array access / pointer dereference of the reader is in bounds (CBMC generated checks);
 *   - the reader returns.
 * Memory::write8/clear are contracts here (the page walk is proved at every address in C05/Memory.write*).
 * One reader per translation unit (-DREADER=n): read_hex and read_srec both define get_hex.
 */
#include <stdio.h>
#include <stdlib.h>
#include <string.h>
#include "vh.h"
#include "core/Memory.h"
#include "fileio/FileIo.h"

extern "C" { int g_nchars, g_eof; unsigned g_nwrites; int g_errors; uint32_t *g_p_low, *g_p_high; }
extern "C" int getc(FILE *f)
{
  if (g_eof) return EOF;
  g_nchars++; ASSUME(g_nchars < (1 << 28));
  int c = nondet_int(); ASSUME(c >= -1 && c <= 255);
  if (c == EOF) g_eof = 1;
  return c;
}
static long g_file_obj[64];
extern "C" FILE *fopen(const char *n, const char *m) { return (nondet_int() & 1) ? (FILE *)(void *)&g_file_obj[0] : (FILE *)0; }
extern "C" int fclose(FILE *f) { return 0; }
/* files shorter than 2 GiB - 512 (the readers keep file offsets in int) */
extern "C" long ftell(FILE *f) { int v = nondet_int(); ASSUME(v >= -1 && v < 0x7fffffff - 512); return v; }
extern "C" int fseek(FILE *f, long o, int w) { return 0; }
extern "C" int putc(int c, FILE *f) { return c; }
extern "C" size_t fwrite(const void *p, size_t s, size_t n, FILE *f) { return n; }
/* fread contract: stores at most s*n arbitrary bytes into the caller's buffer (the buffer must hold them) */
extern "C" size_t fread(void *p, size_t s, size_t n, FILE *f)
{
  OBL(s * n <= __CPROVER_OBJECT_SIZE(p) - __CPROVER_POINTER_OFFSET(p), "C17.readers: fread destination holds size*count bytes");
  unsigned char *b = (unsigned char *)p;
  if (s * n > 0) { size_t k = nondet_ull(); ASSUME(k < s * n); b[k] = nondet_uchar(); b[0] = nondet_uchar(); b[s * n - 1] = nondet_uchar(); }
  return n;
}
#define printf(...) (g_errors++, 0)
Memory::Memory() {} Memory::~Memory() {}
void Memory::clear() {}
void Memory::write8(uint32_t address, uint8_t data) { g_nwrites++; }

#if READER == 1
#include "fileio/read_bin.cpp"
#define CALL(m) read_bin("x", &m, nondet_uint())
#elif READER == 2
#include "fileio/read_ti_txt.cpp"
#define CALL(m) read_ti_txt("x", &m)
#elif READER == 3
#include "fileio/read_wdc.cpp"
#define CALL(m) read_wdc("x", &m)
#elif READER == 4
#include "fileio/read_hex.cpp"
#define CALL(m) read_hex("x", &m)
#elif READER == 5
#include "fileio/read_srec.cpp"
#define CALL(m) read_srec("x", &m)
#elif READER == 6
#include "fileio/FileIo.cpp"
#include "fileio/read_uf2.cpp"
#define CALL(m) read_uf2("x", &m)
#endif
#undef printf

extern "C" void h_reader()
{
  Memory m; m.low_address = 0; m.high_address = 0;
  g_nchars = 0; g_eof = 0; g_nwrites = 0; g_errors = 0; g_p_low = &m.low_address; g_p_high = &m.high_address;
  int r = CALL(m);
  OBL(g_nchars >= 0 && g_nchars < (1 << 28), "C17.readers: the reader returns after consuming the file");
  (void)r;
  CANARY("h_reader end");
}
