/* C17 — termination and memory-safety contracts of the object-file readers, for ANY file content of ANY length:
 *   read_bin, read_ti_txt, read_wdc(+read_int24), read_hex(+get_hex), read_srec(+get_hex, ignore_line), read_uf2(+read_block)
 * The file is the stream contract of getc: an arbitrary byte or EOF per call, EOF is sticky, g_nchars counts the
 * characters consumed (streams shorter than 2^28 characters).  fread delivers arbitrary bytes.
 * POST (per reader, every loop under a DFCC loop contract - no unwinding bound):
 *   - every loop has a variant: either a counter bounded by a value read from the file (<= 2^24) or the stream
 *     measure 2^28 - g_nchars, which only decreases while input is consumed: no loop iterates again at EOF;
 *   - every array access / pointer dereference of the reader is in bounds (CBMC generated checks);
 *   - the reader returns.
 * Memory::write8/clear are contracts here (the page walk is proved at every address in C05/Memory.write*).
 * One reader per translation unit (-DREADER=n): read_hex and read_srec both define get_hex.
 */
#include <stdio.h>
#include <stdlib.h>
#include <string.h>
#include "vh.h"
#include "core/Memory.h"
#include "fileio/FileIo.h"

extern "C" { int g_nchars, g_eof; unsigned g_nwrites; int g_errors; uint32_t *g_p_low, *g_p_high; int g_open; }
#if READER == 8
/* position-aware file contract (the Amiga hunk reader seeks backwards and forwards): a file of g_len arbitrary bytes,
   g_pos the read position; a read at or beyond the end returns EOF and raises the end-of-file indicator, a seek clears it */
extern "C" { long g_len, g_pos; }
extern "C" int getc(FILE *f)
{
  if (g_pos >= g_len) { g_eof = 1; return EOF; }
  g_pos++;
  return (nondet_uchar)();
}
static long g_file_obj[64];
extern "C" FILE *fopen(const char *n, const char *m) { if (nondet_int() & 1) { g_open = 1; return (FILE *)(void *)&g_file_obj[0]; } return (FILE *)0; }
extern "C" int fclose(FILE *f) { OBL(f != 0 && g_open == 1, "C17.readers: a stream is closed at most once, and only if it was opened (no double fclose)"); g_open = 0; return 0; }
extern "C" long ftell(FILE *f) { return g_pos; }
extern "C" int feof(FILE *f) { return g_eof; }
extern "C" int fseek(FILE *__stream, long __off, int __whence)
{
  long base = (__whence == SEEK_SET) ? 0 : (__whence == SEEK_CUR) ? g_pos : g_len;
  if ((1L << 40) < __off) return -1;
  if (-(1L << 40) > __off) return -1;
  if (base + __off < 0) return -1;
  g_pos = base + __off; g_eof = 0;
  return 0;
}
#else
extern "C" int getc(FILE *f)
{
  if (g_eof) return EOF;
  g_nchars++; ASSUME(g_nchars < (1 << 28));
  int c = (nondet_int)(); ASSUME(c >= -1 && c <= 255);   /* file bytes are not entered in the replay log: loop-contract proofs have no concrete replay */
  if (c == EOF) g_eof = 1;
  return c;
}
static long g_file_obj[64];
extern "C" FILE *fopen(const char *n, const char *m) { if (nondet_int() & 1) { g_open = 1; return (FILE *)(void *)&g_file_obj[0]; } return (FILE *)0; }
extern "C" int fclose(FILE *f) { OBL(f != 0 && g_open == 1, "C17.readers: a stream is closed at most once, and only if it was opened (no double fclose)"); g_open = 0; return 0; }
/* files shorter than 2 GiB - 512 (the readers keep file offsets in int) */
extern "C" long ftell(FILE *f) { int v = nondet_int(); ASSUME(v >= -1 && v < 0x7fffffff - 512); return v; }
extern "C" int fseek(FILE *f, long o, int w) { return 0; }
#endif
extern "C" int putc(int c, FILE *f) { return c; }
extern "C" size_t fwrite(const void *p, size_t s, size_t n, FILE *f) { return n; }
struct vb16 { unsigned char b[16]; }; struct vb476 { unsigned char b[476]; };
vb16 nondet_vb16(); vb476 nondet_vb476();
/* fread contract: stores at most s*n arbitrary bytes into the caller's buffer (the buffer must hold them) */
extern "C" size_t fread(void *p, size_t s, size_t n, FILE *f)
{
  OBL(s * n <= __CPROVER_OBJECT_SIZE(p) - __CPROVER_POINTER_OFFSET(p), "C17.readers: fread destination holds size*count bytes");
  /* every byte of the destination is arbitrary (the readers use 16-byte and 476-byte blocks) */
  if (s * n == 16) *(vb16 *)p = nondet_vb16();
  else if (s * n == 476) *(vb476 *)p = nondet_vb476();
  else if (s * n > 0) { unsigned char *b = (unsigned char *)p; size_t k = (nondet_ull)(); ASSUME(k < s * n); b[k] = (nondet_uchar)(); b[0] = (nondet_uchar)(); b[s * n - 1] = (nondet_uchar)(); }
  return n;
}
#define printf(...) (g_errors++, 0)
Memory::Memory() {} Memory::~Memory() {}
void Memory::clear() {}
void Memory::write8(uint32_t address, uint8_t data) { g_nwrites++; CANARY("the reader's data loop is reachable (Memory::write8 called)"); }

#if READER == 1
#include "fileio/read_bin.cpp"
#define CALL(m) read_bin("x", &m, nondet_uint())
#elif READER == 2
#include "fileio/read_ti_txt.cpp"
#define CALL(m) read_ti_txt("x", &m)
#elif READER == 3
#include "fileio/read_wdc.cpp"
#define CALL(m) read_wdc("x", &m)
#elif READER == 4
#include "fileio/read_hex.cpp"
#define CALL(m) read_hex("x", &m)
#elif READER == 5
#include "fileio/read_srec.cpp"
#define CALL(m) read_srec("x", &m)
#elif READER == 6
#include "fileio/FileIo.cpp"
#include "fileio/read_uf2.cpp"
#define CALL(m) read_uf2("x", &m)
#elif READER == 8
#include "fileio/read_amiga.cpp"
#define CALL(m) read_amiga("x", &m)
#elif READER == 7 || READER == 9
#include "core/Symbols.h"
/* strcmp/strncmp contracts: an arbitrary result (the section-name tests only select which sections are loaded) */
extern "C" { int g_cmp[4]; int g_ncmp[4]; }   /* results per compared literal (".strtab", ".vectors", ".data", other), redrawn for every name read */
static int cmp_slot(const char *b) { return b[1] == 's' ? 0 : b[1] == 'v' ? 1 : b[1] == 'd' ? 2 : 3; }
/* strcmp (whole string) and strncmp (prefix) are separate, repeatable results: equal strings have equal prefixes, not conversely */
extern "C" int strcmp(const char *a, const char *b) { return g_cmp[cmp_slot(b)]; }
extern "C" int strncmp(const char *a, const char *b, size_t n) { return g_ncmp[cmp_slot(b)]; }
Symbols::Symbols() {} Symbols::~Symbols() {}
/* Symbols::append contract: the name must be a NUL-terminated string inside the reader's 128-byte buffer */
extern "C" { const char *g_str_buf; int g_str_nul; }   /* ghost witness: where the last name was NUL terminated */
int Symbols::append(const char *name, uint32_t address)
{
  OBL(name == g_str_buf && g_str_nul >= 0 && (size_t)g_str_nul < __CPROVER_OBJECT_SIZE(name) - __CPROVER_POINTER_OFFSET(name)
#if READER == 7
      && name[g_str_nul] == 0
#endif
      ,
      "C17.symbols: a symbol name handed to the symbol table is the NUL-terminated string just read into its buffer");
  CANARY("the reader's symbol loop is reachable (Symbols::append called)");
  return 0;
}
#include "fileio/FileIo.cpp"
/* FileIo::get_string_at_offset is replaced by its contract at the call sites of this reader (the body is discharged
   for every file content and buffers of 2..130 bytes by C17/get_string_at_offset): PRE length >= 2 and the buffer
   holds length bytes; POST an arbitrary NUL-terminated string in data[0..length-1] */
static int vs_get_string(char *data, int length, uint64_t offset)
{
  OBL(length >= 2 && length <= 130 && (size_t)length <= __CPROVER_OBJECT_SIZE(data) - __CPROVER_POINTER_OFFSET(data), "C17.symbols: get_string_at_offset is called with a buffer that holds length bytes (2..130)");
  int k = nondet_int(); ASSUME(k >= 0 && k < length);
#if READER == 7
  data[0] = nondet_char(); data[k] = nondet_char(); data[length - 1] = 0;
#endif
  /* READER 9 (Mach-O): the buffer content is kept abstract (only the ghost witness is set): the name buffer is a
     local of the command loop's body, which DFCC's assigns-clause inclusion check for the nested symbol loop rejects */
  g_str_buf = data; g_str_nul = length - 1;
  g_cmp[0] = (nondet_int)(); g_ncmp[0] = (nondet_int)(); ASSUME(g_cmp[0] != 0 || g_ncmp[0] == 0);
  g_cmp[1] = (nondet_int)(); g_ncmp[1] = (nondet_int)(); ASSUME(g_cmp[1] != 0 || g_ncmp[1] == 0);
  g_cmp[2] = (nondet_int)(); g_ncmp[2] = (nondet_int)(); ASSUME(g_cmp[2] != 0 || g_ncmp[2] == 0);
  g_cmp[3] = (nondet_int)(); g_ncmp[3] = (nondet_int)(); ASSUME(g_cmp[3] != 0 || g_ncmp[3] == 0);
  return 0;
}
#define get_string_at_offset(d, l, o) tell(), vs_get_string(d, l, o)
#if READER == 7
#include "fileio/read_elf.cpp"
#else
#include "fileio/read_macho.cpp"
#endif
#undef get_string_at_offset
static uint8_t g_cpu_type;
static Symbols *g_syms;
#if READER == 7
#define CALL(m) (g_cpu_type = nondet_uchar(), read_elf("x", &m, &g_cpu_type, (nondet_int() & 1) ? g_syms : (Symbols *)0))
#else
#define CALL(m) (g_cpu_type = nondet_uchar(), read_macho("x", &m, &g_cpu_type, g_syms))
#endif
#endif
#undef printf

extern "C" void h_reader()
{
  Memory m; m.low_address = 0; m.high_address = 0;
#if READER == 7 || READER == 9
  Symbols syms; g_syms = &syms;
#endif
#if READER == 8
  g_len = nondet_int(); ASSUME(g_len >= 0 && g_len < (1 << 28)); g_pos = 0;
#endif
  g_nchars = 0; g_eof = 0; g_nwrites = 0; g_errors = 0; g_open = 0; g_p_low = &m.low_address; g_p_high = &m.high_address;
  int r = CALL(m);
  OBL(g_nchars >= 0 && g_nchars < (1 << 28), "C17.readers: the reader returns after consuming the file");
  (void)r;
  CANARY("h_reader end");
}
