/* C19/C17 — contracts of the naken_util command parsers and memory commands (core/UtilContext.cpp):
 *   get_num / get_hex (static): for every NUL-terminated string of at most 8 characters (BOUNDED, all
 *     characters symbolic): never read past the terminator; the returned pointer lies inside
 *     [token, token + strlen(token)]; decimal (optional '-'), 0x... and ...h spellings yield the positional
 *     value modulo 2^32; anything else returns NULL.
 *   write8/write16 "addr n0 n1": with get_num's behaviour as above, the k-th number is stored at
 *     addr * bytes_per_address + k * width in the CPU's byte order and nothing else is written;
 *     a bad address writes nothing and returns.
 */
#include <stdio.h>
#include <stdlib.h>
#include <string.h>
#include "vh.h"
#include "common/String.h"
#include "core/AsmContext.h"
#include "core/UtilContext.h"

extern "C" { unsigned g_wa[6]; unsigned char g_wd[6]; int g_wn; int g_sym_found; unsigned g_sym_addr; int g_over; }
Memory::Memory() : pages{nullptr}, low_address{0xffffffff}, high_address{0}, entry_point{0xffffffff}, endian{ENDIAN_LITTLE} {}
Memory::~Memory() {}
void Memory::write8(uint32_t address, uint8_t data) { if (g_wn < 6) { g_wa[g_wn] = address; g_wd[g_wn] = data; g_wn++; } else g_over = 1; }
void Memory::write16(uint32_t address, uint16_t data)
{
  if (endian == ENDIAN_LITTLE) { write8(address, data & 0xff); write8(address + 1, data >> 8); }
  else { write8(address, data >> 8); write8(address + 1, data & 0xff); }
}
void Memory::write32(uint32_t address, uint32_t data) { write16(address, data & 0xffff); write16(address + 2, data >> 16); }
uint8_t Memory::read8(uint32_t address) { return nondet_uchar(); }
uint16_t Memory::read16(uint32_t address) { return nondet_ushort(); }
uint32_t Memory::read32(uint32_t address) { return nondet_uint(); }
int Memory::read_debug(uint32_t address) { return nondet_int(); }
Symbols::Symbols() {} Symbols::~Symbols() {}
int Symbols::lookup(const char *name, uint32_t *address) { if (g_sym_found) { *address = g_sym_addr; return 0; } *address = 0; return -1; }
Simulate *SimulateMsp430::init(Memory *memory) { return 0; }
void disasm_range_msp430(Memory *memory, uint32_t flags, uint32_t start, uint32_t end) {}
extern "C" int printf(const char *fmt, ...) { return 0; }
struct _cpu_list cpu_list[1];
#include "common/String.cpp"
#include "core/UtilContext.cpp"

#ifndef SLEN
#define SLEN 8
#endif
static void sym_string(char *s, int n) { for (int i = 0; i < n; i++) s[i] = nondet_char(); s[n] = 0; }
static int slen(const char *s) { int n = 0; for (int i = 0; i < SLEN + 1; i++) if (s[i] != 0 && n == i) n++; return n; }

extern "C" void h_get_num()
{
  char s[SLEN + 1];
  sym_string(s, SLEN);
  uint32_t num = 0x5a5a5a5a;
  const char *r = UtilContext::get_num(s, &num);
  int n = slen(s);
  if (r != 0)
  {
    OBL(r >= s && r <= s + n, "C19.num: the returned position lies inside the string (never past its terminator)");
  }
  /* reference for plain decimal strings "[-]d+" */
  int i = 0, neg = 0, digits = 0, plain = 1; uint32_t v = 0;
  if (s[0] == '-') { neg = 1; i = 1; }
  for (int k = 0; k < SLEN; k++) if (k >= i && k < n) { if (s[k] >= '0' && s[k] <= '9') { v = v * 10 + (uint32_t)(s[k] - '0'); digits++; } else plain = 0; }
  if (plain && digits > 0 && n > 0)
  {
    OBL(r == s + n && num == (neg ? (uint32_t)(0u - v) : v), "C19.num: a decimal number yields its value modulo 2^32 and consumes the whole token");
  }
  /* reference for "0x" + hex digits */
  if (n >= 3 && s[0] == '0' && s[1] == 'x')
  {
    int ok = 1; uint32_t h = 0;
    for (int k = 2; k < SLEN; k++) if (k < n)
    {
      char c = s[k];
      if (c >= '0' && c <= '9') h = h * 16 + (uint32_t)(c - '0');
      else if (c >= 'a' && c <= 'f') h = h * 16 + (uint32_t)(c - 'a' + 10);
      else if (c >= 'A' && c <= 'F') h = h * 16 + (uint32_t)(c - 'A' + 10);
      else ok = 0;
    }
    if (ok) OBL(r == s + n && num == h, "C19.num: a 0x number yields its value and consumes the whole token");
  }
  if (n == 0) OBL(r == 0, "C19.num: an empty string is not a number");
  /* progress: the command loops (write, write16, write32) call get_num until it returns NULL, so a successful
     parse must consume at least one character - otherwise the command never returns (C17) */
  if (r != 0) OBL(r > s, "C19.num: a successful parse consumes at least one character (the command loops terminate)");
  CANARY("h_get_num end");
}

/* write8 / write16 "A N0 N1" with concrete spellings of the separators and symbolic digits */
extern "C" void h_write()
{
  UtilContext u;
  u.bytes_per_address = nondet_uchar(); ASSUME(u.bytes_per_address == 1 || u.bytes_per_address == 2 || u.bytes_per_address == 4);
  u.memory.endian = nondet_int() & 1;
  g_wn = 0; g_over = 0; g_sym_found = 0;
  char s[12]; /* "dd d dd" */
  char a0 = nondet_char(), a1 = nondet_char(), b0 = nondet_char(), c0 = nondet_char(), c1 = nondet_char();
  ASSUME(a0 >= '0' && a0 <= '9' && a1 >= '0' && a1 <= '9' && b0 >= '0' && b0 <= '9' && c0 >= '0' && c0 <= '9' && c1 >= '0' && c1 <= '9');
  s[0] = a0; s[1] = a1; s[2] = ' '; s[3] = b0; s[4] = ' '; s[5] = c0; s[6] = c1; s[7] = 0;
  unsigned addr = (unsigned)((a0 - '0') * 10 + (a1 - '0')) * u.bytes_per_address;
  unsigned n0 = (unsigned)(b0 - '0'), n1 = (unsigned)((c0 - '0') * 10 + (c1 - '0'));
#if WIDTH == 1
  u.write8(s);
  OBL(!g_over && g_wn == 2 && g_wa[0] == addr && g_wd[0] == n0 && g_wa[1] == addr + 1 && g_wd[1] == n1, "C19.write: write stores the k-th value at address*bytes_per_address + k and nothing else");
#else
  u.write16(s);
  int le = (u.memory.endian == ENDIAN_LITTLE);
  OBL(!g_over && g_wn == 4 && g_wa[0] == addr && g_wa[1] == addr + 1 && g_wa[2] == addr + 2 && g_wa[3] == addr + 3, "C19.write: write16 stores the k-th value at address*bytes_per_address + 2k and nothing else");
  OBL(g_wd[le ? 0 : 1] == n0 && g_wd[le ? 1 : 0] == 0 && g_wd[le ? 2 : 3] == n1 && g_wd[le ? 3 : 2] == 0, "C19.write: write16 stores the values in the CPU's byte order");
#endif
  CANARY("h_write end");
}

/* a bad address writes nothing and does not crash (C17) */
extern "C" void h_write_bad()
{
  UtilContext u;
  u.bytes_per_address = 1; u.memory.endian = 0; g_wn = 0; g_over = 0; g_sym_found = 0;
  char s[6]; s[0] = nondet_char(); s[1] = nondet_char(); s[2] = ' '; s[3] = '1'; s[4] = 0;
  ASSUME(s[0] >= 'g' && s[0] <= 'z' && s[1] >= 'g' && s[1] <= 'z');
#if WIDTH == 1
  u.write8(s);
#elif WIDTH == 2
  u.write16(s);
#else
  u.write32(s);
#endif
  OBL(g_wn == 0, "C17.write: a command with a bad address writes nothing (and returns)");
  CANARY("h_write_bad end");
}

/* C08 — UtilContext::disasm(start, end): the whole-image disassembly walks the 64 KiB pages of the range and
 * hands every run of consecutive pages that are in use to the CPU's range disassembler exactly once, from the
 * lowest used address of the run's first page to the highest used address of its last page; pages that are
 * not in use are skipped; the walk terminates.  BOUNDED: the range touches at most 4 pages. */
extern "C" { unsigned g_p0; int g_inuse[4]; unsigned g_pmin[4], g_pmax[4]; unsigned g_ca[5], g_cb[5]; int g_nc; int g_bad_query; }
bool Memory::in_use(uint32_t address) { unsigned pi = (address >> 16) - g_p0; if (pi > 3) { g_bad_query = 1; return false; } return g_inuse[pi] != 0; }
uint32_t Memory::get_page_address_min(uint32_t address) { unsigned pi = (address >> 16) - g_p0; if (pi > 3 || !g_inuse[pi]) { g_bad_query = 1; return 0; } return (address & 0xffff0000u) + g_pmin[pi]; }
uint32_t Memory::get_page_address_max(uint32_t address) { unsigned pi = (address >> 16) - g_p0; if (pi > 3 || !g_inuse[pi]) { g_bad_query = 1; return 0; } return (address & 0xffff0000u) + g_pmax[pi]; }
static void rec_range(Memory *memory, uint32_t flags, uint32_t start, uint32_t end) { if (g_nc < 5) { g_ca[g_nc] = start; g_cb[g_nc] = end; } g_nc++; }
extern "C" void h_disasm_pages()
{
  UtilContext u;
  u.bytes_per_address = 1; u.flags = 0; u.disasm_range = rec_range;
  unsigned start = nondet_uint(), end = nondet_uint();
  ASSUME(start <= end && (end >> 16) - (start >> 16) <= 3);      /* anywhere in the 32-bit space, including the last page */
  g_p0 = start >> 16; g_nc = 0; g_bad_query = 0;
  for (int i = 0; i < 4; i++) { g_inuse[i] = nondet_int() & 1; g_pmin[i] = nondet_uint() & 0xffff; g_pmax[i] = nondet_uint() & 0xffff; ASSUME(g_pmin[i] <= g_pmax[i]); }
  ASSUME(g_inuse[0] == 1);      /* callers pass the image's lowest written address: its page is in use */
  unsigned npages = (end >> 16) - (start >> 16) + 1;
  u.disasm(start, end);
  OBL(!g_bad_query, "C08.pages: page queries are made only for pages of the range that are in use");
  OBL(g_nc <= 2, "C08.pages: at most one call per run of consecutive in-use pages");
  int w = nondet_int(); ASSUME(w >= 0 && w < 4);
  if ((unsigned)w < npages)
  {
    int covered = 0;
    for (int k = 0; k < 2; k++) if (k < g_nc && (g_ca[k] >> 16) - g_p0 <= (unsigned)w && (unsigned)w <= (g_cb[k] >> 16) - g_p0) covered++;
    OBL(covered == (g_inuse[w] ? 1 : 0), "C08.pages: every in-use page of the range is disassembled exactly once, pages not in use are skipped");
  }
  for (int k = 0; k < 2; k++) if (k < g_nc)
  {
    unsigned fa = (g_ca[k] >> 16) - g_p0, fb = (g_cb[k] >> 16) - g_p0;
    OBL(fa <= 3 && fb <= 3 && fa <= fb && g_ca[k] == ((g_p0 + fa) << 16) + g_pmin[fa] && g_cb[k] == ((g_p0 + fb) << 16) + g_pmax[fb],
        "C08.pages: a run is disassembled from the lowest used address of its first page to the highest used address of its last page");
  }
  CANARY("h_disasm_pages end");
}
