/* C17/C19 — contract of naken_util's main() (main/naken_util.cpp): command-line handling up to the first prompt.
 *
 * PRE   argc in 2..4; argv[0..argc-1] each one of the strings of a vocabulary (the options that take a value, -bin, a CPU name, two numbers, a file name); argv[argc] == NULL as the C standard guarantees.  BOUNDED by argc.
 *       file_read, UtilContext and Simulate are contracts (arbitrary results / ghost state), standard input is at
 *       end of file so the command loop ends at the first prompt (the build without readline).
 * POST  C17: no argv entry beyond argc-1 is used (the NULL terminator is never dereferenced: CBMC pointer obligations
 *            in main() and in the real String class);
 *       C19: with `-set_pc A` the simulator's program counter at the first prompt is A (nothing that sets the
 *            program counter - reset() in particular - runs after the option is applied);
 *            `-break_io A` reaches the simulator; `-address A` reaches the loader.
 */
#include <stdio.h>
#include <stdlib.h>
#include <string.h>
#include <stdint.h>
#include "vh.h"
#include "common/String.h"
#include "core/AsmContext.h"
#include "core/UtilContext.h"
#include "fileio/file.h"
#if SCN >= 21
#include <readline/readline.h>
#include <readline/history.h>
#endif

extern "C" { int g_print8, g_print16, g_write16, g_other_cmd; char g_arg0, g_arg1; unsigned g_pc; int g_pc_known; int g_reset_calls; int g_break_io_seen; unsigned g_load_addr; int g_loaded; int g_prompted; }
/* concrete command lines (symbolic argv words make CBMC's symbolic execution explore the whole command interpreter):
   SCN 1..6 end at the first prompt; SCN 11..16 end in an option whose value is missing */
#if SCN == 1
static const char *const g_cmd[] = { "naken_util", "-set_pc", "0x1234" };
#elif SCN == 2
static const char *const g_cmd[] = { "naken_util", "-set_pc", "0x1234", "a.hex" };
#elif SCN == 3
static const char *const g_cmd[] = { "naken_util", "a.hex", "-set_pc", "77" };
#elif SCN == 4
static const char *const g_cmd[] = { "naken_util", "-msp430", "-set_pc", "0x1234" };
#elif SCN == 5
static const char *const g_cmd[] = { "naken_util", "-address", "0x1234", "-bin", "a.hex" };
#elif SCN == 6
static const char *const g_cmd[] = { "naken_util", "-break_io", "77", "-set_pc", "0x1234", "a.hex" };
#elif SCN == 11
static const char *const g_cmd[] = { "naken_util", "-disasm_range" };
#elif SCN == 12
static const char *const g_cmd[] = { "naken_util", "a.hex", "-disasm_range" };
#elif SCN == 13
static const char *const g_cmd[] = { "naken_util", "-set_pc" };
#elif SCN == 14
static const char *const g_cmd[] = { "naken_util", "a.hex", "-address" };
#elif SCN == 15
static const char *const g_cmd[] = { "naken_util", "-break_io" };
#elif SCN == 16
static const char *const g_cmd[] = { "naken_util", "a.hex", "-sim_serial", "1" };
#elif SCN >= 21
/* the shipped configuration (-DREADLINE): a session of one or two command lines, then end of input without `quit` */
static const char *const g_cmd[] = { "naken_util", "a.hex" };
#endif
#if SCN >= 11 && SCN < 21
#define LASTOPT 1
#endif
#define NWORDS ((int)(sizeof(g_cmd) / sizeof(g_cmd[0])))
/* --- contracts of what main() calls --- */
Memory::Memory() {} Memory::~Memory() {}
Symbols::Symbols() {} Symbols::~Symbols() {}
static Memory g_mem;
Simulate::Simulate(Memory *m) {} Simulate::~Simulate() {}
void Simulate::reset() { g_reset_calls++; g_pc = 0xfffe; g_pc_known = 1; }      /* reset loads the program counter from the reset vector */
void Simulate::set_pc(uint32_t value) { g_pc = value; g_pc_known = 1; }
void Simulate::push(uint32_t value) {}
int Simulate::set_reg(const char *reg_string, uint32_t value) { return 0; }
uint32_t Simulate::get_reg(const char *reg_string) { return 0; }
void Simulate::dump_registers() {}
int Simulate::run(int max_cycles, int step) { return 0; }
int Simulate::dump_ram(int start, int end) { return 0; }
void Simulate::init_serial(uint32_t address, const char *in_name, const char *out_name) {}
void Simulate::disable_signal_handler() {}
void Simulate::enable_signal_handler() {}
bool Simulate::stop_running;
static Simulate *g_sim;
UtilContext::UtilContext() { simulate = g_sim; cpu_name = "msp430"; }
UtilContext::~UtilContext() {}
int UtilContext::is_supported_cpu(const char *name) { return name[0] == 'm' ? 1 : 0; }
int UtilContext::set_cpu_by_name(const char *name) { return 0; }
void UtilContext::disasm(const char *token) { g_other_cmd++; }
void UtilContext::disasm(uint32_t start, uint32_t end) {}
void UtilContext::sim_show_info() {}
int UtilContext::sim_set_register(String &arg) { return 0; }
int UtilContext::sim_clear_flag(String &arg) { return 0; }
int UtilContext::sim_set_speed(String &arg) { return 0; }
int UtilContext::sim_stack_push(String &arg) { return 0; }
int UtilContext::sim_set_breakpoint(String &arg) { return 0; }
void UtilContext::print8(const char *token) { g_print8++; g_arg0 = token[0]; g_arg1 = token[1]; }
void UtilContext::print16(const char *token) { g_print16++; }
void UtilContext::print32(const char *token) { g_other_cmd++; }
void UtilContext::write8(const char *token) { g_other_cmd++; }
void UtilContext::write16(const char *token) { g_write16++; g_arg0 = token[0]; g_arg1 = token[1]; }
void UtilContext::write32(const char *token) { g_other_cmd++; }
const char *UtilContext::get_address(const char *token, uint32_t *address) { *address = 0; return 0; }
bool UtilContext::get_range(const char *text, Range &range) { return false; }
int Symbols::print(FILE *out) { return 0; }
int file_read(const char *filename, UtilContext *util_context, int *file_type, const char *cpu_name, uint32_t start_address)
{
  g_load_addr = start_address; g_loaded = 1;
  return 0;   /* the file loads (a failing load ends main() before the simulator is touched) */
}
const char *file_get_file_type_name(int file_type) { return "hex"; }
int AsmContext::assemble() { return 0; }
AsmContext::AsmContext() {} AsmContext::~AsmContext() {}
void AsmContext::init() {}
Macros::Macros() {} Macros::~Macros() {}
void tokens_open_buffer(AsmContext *, const char *) {}
int AsmContext::set_cpu(const char *name) { return 0; }
uint8_t Memory::read8(uint32_t a) { return 0; }
void Memory::write8(uint32_t a, uint8_t d) {}
void tokens_close(AsmContext *) {}
void tokens_reset(AsmContext *) {}
#if SCN >= 21
extern "C" { int g_rl_calls; rl_completion_func_t *rl_attempted_completion_function; int rl_attempted_completion_over; char *rl_line_buffer; }
#if SCN == 21
static char g_line1[24] = "registers"; static char g_line2[8] = "";
#define NLINES 1
#elif SCN == 22
static char g_line1[24] = "print 0x10"; static char g_line2[8] = "quit";
#define NLINES 2
#elif SCN == 23
static char g_line1[24] = "bogus 1 2"; static char g_line2[8] = "exit";
#define NLINES 2
#elif SCN == 24
static char g_line1[24] = "write16 0x20 1 2"; static char g_line2[8] = "quit";
#define NLINES 2
#elif SCN == 25
static char g_line1[24] = "print"; static char g_line2[8] = "quit";
#define NLINES 2
#endif
/* readline contract: the session's lines in order, then end of input (NULL) for ever */
extern "C" char *readline(const char *prompt) { g_rl_calls++; g_prompted = 1; return g_rl_calls == 1 ? g_line1 : (g_rl_calls == 2 && NLINES == 2) ? g_line2 : (char *)0; }
extern "C" void add_history(const char *line) {}
extern "C" char **rl_completion_matches(const char *text, rl_compentry_func_t *entry) { return 0; }
#endif
extern "C" {
#ifdef LASTOPT
void exit(int code) { CANARY("exit() reachable"); ASSUME(0); }
#else
void exit(int code) { ASSUME(0); }
#endif
char *fgets(char *s, int n, FILE *f) { g_prompted = 1; return 0; }          /* end of input at the first prompt */
int fflush(FILE *f) { return 0; }
long strtol(const char *s, char **end, int base) { OBL(s != 0, "C17.cli: a numeric option value is present (argv[argc] is not used)"); ASSUME(s != 0); return s[0] == '0' ? 0x1234 : 77; }
int atoi(const char *s) { return 77; }
}
#define printf(...) (0)
#include "common/String.cpp"
#define main naken_util_main
#include "main/naken_util.cpp"
#undef main
#undef printf

extern "C" void h_utilmain()
{
  static Simulate sim(&g_mem); g_sim = &sim;
  int argc = NWORDS;
  char *argv[8];
  for (int i = 0; i < 8; i++) argv[i] = (i < NWORDS) ? (char *)&g_cmd[i][0] : (char *)0;      /* argv[argc] == NULL */
  g_pc = 0; g_pc_known = 0; g_reset_calls = 0; g_loaded = 0; g_prompted = 0; g_print8 = 0; g_print16 = 0; g_write16 = 0; g_other_cmd = 0; g_arg0 = 0; g_arg1 = 0;
  int r = naken_util_main(argc, argv);
#if SCN >= 21
  OBL(g_rl_calls <= NLINES + 1, "C17.cli: `quit`/`exit` or end of input ends the session (no command is read or repeated after it)");
#if SCN == 22
  OBL(g_print8 == 1 && g_arg0 == '0' && g_arg1 == 'x' && g_print16 + g_write16 + g_other_cmd == 0, "C17.cli: `print <range>` runs the byte dump once with its argument and nothing else");
#elif SCN == 23 || SCN == 25
  OBL(g_print8 + g_print16 + g_write16 + g_other_cmd == 0, "C17.cli: an unknown command, or a command without its required argument, is rejected without running anything");
#elif SCN == 24
  OBL(g_write16 == 1 && g_arg0 == '0' && g_arg1 == 'x' && g_print8 + g_print16 + g_other_cmd == 0, "C17.cli: `write16 <address> <values>` runs the 16-bit write once with its arguments and nothing else");
#endif
  CANARY("h_utilmain end");
#elif !defined(LASTOPT)
  OBL(g_prompted, "C19.cli: the command line is accepted and the first prompt is reached");
#if SCN != 5
  OBL(g_pc_known && g_pc == (SCN == 3 ? 77u : 0x1234u), "C19.cli: with -set_pc A the program counter at the first prompt is A (nothing resets it afterwards)");
#else
  OBL(g_loaded && g_load_addr == 0x1234, "C19.cli: -address A reaches the loader");
#endif
  OBL(g_reset_calls >= 1, "C19.cli: the simulator is reset before the first prompt");
  CANARY("h_utilmain end");
#else
  OBL(!g_prompted, "C17.cli: a command line that ends in an option without its value is rejected");
#endif
  (void)r;
}
