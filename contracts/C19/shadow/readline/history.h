#ifndef VERIF_SHADOW_HISTORY_H
#define VERIF_SHADOW_HISTORY_H
extern "C" { void add_history(const char *line); }
#endif
