/* contract stand-in for <readline/readline.h> (the shipped binary is built with -DREADLINE): only what main/naken_util.cpp uses */
#ifndef VERIF_SHADOW_READLINE_H
#define VERIF_SHADOW_READLINE_H
extern "C" {
typedef char **rl_completion_func_t(const char *, int, int);
typedef char *rl_compentry_func_t(const char *, int);
extern rl_completion_func_t *rl_attempted_completion_function;
extern int rl_attempted_completion_over;
extern char *rl_line_buffer;
char *readline(const char *prompt);
char **rl_completion_matches(const char *text, rl_compentry_func_t *entry);
}
#endif
