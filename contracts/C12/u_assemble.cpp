/* C12/C18 — contract of AsmContext::assemble and AsmContext::directive (core/AsmContext.cpp):
 * an erroneous statement is never skipped silently.
 *
 * The statement stream is arbitrary and unbounded (DFCC loop contract on the statement loop and on the
 * `equ` text loop).  Every callee is a contract returning an arbitrary status:
 *   tokens_get (arbitrary token of a fixed vocabulary, may raise a lexical error = error_count++),
 *   macros_lookup, Symbols::append, parse_directives, the data directives called by directive(),
 *   parse_instruction (through the function pointer), list_output.
 * Ghost g_err_pending is set whenever a callee reports an error.
 * INV   no error is pending at the head of the statement loop (an error makes the function return);
 * POST  result in {0, 2, 3, -1};  a pending error => -1;  error_count > 0 on entry => -1 before any statement;
 *       0 is returned only at end of input / `end` with the error flag clear;  3 / 2 only when parse_directives
 *       reported `.endr` / `.else`;  after an accepted instruction the listing callback receives exactly
 *       [start address, location counter) once (C18), instruction_count and code_count advance accordingly.
 */
#define KEEP_REAL_CTORS 1
#include "stub_ctx.h"
#include <stdio.h>
#include <stdlib.h>
#include <string.h>
#include "core/Linker.h"
#include "core/Macros.h"
#include "core/tokens.h"

extern "C" {
int g_ntok, g_err_pending, g_eof_seen, g_end_seen, g_pd_last, g_stmt_err_at_head, g_list_calls, g_list_ok, g_instr_addr0, g_in_instr, g_instr_ret, g_nchars;
int *g_p_error_count, *g_p_address, *g_p_line, *g_p_icount, *g_p_ccount;
bool *g_p_error;
}
#define P1(k) if (!done) { t[k] = s[k]; if (s[k] == 0) done = 1; }
static void put(char *t, const char *s) { int done = 0; P1(0) P1(1) P1(2) P1(3) P1(4) P1(5) P1(6) P1(7) }

int tokens_get(AsmContext *ctx, char *token, int len)
{
  g_ntok++; ASSUME(g_ntok < (1 << 26));
  if (nondet_int() & 1) { ctx->error_count++; ASSUME(ctx->error_count < (1 << 26)); }      /* lexical error */
  int k = nondet_int(); ASSUME(k >= 0 && k <= 16);
  switch (k)
  {
    case 0: token[0] = 0; g_eof_seen = 1; return TOKEN_EOF;
    case 1: put(token, "\n"); return TOKEN_EOL;
    case 2: put(token, "lab"); return TOKEN_LABEL;
    case 3: put(token, "#"); return TOKEN_POUND;
    case 4: put(token, "."); return TOKEN_SYMBOL;
    case 5: put(token, "org"); return TOKEN_STRING;
    case 6: put(token, "db"); return TOKEN_STRING;
    case 7: put(token, "dw"); return TOKEN_STRING;
    case 8: put(token, "dc32"); return TOKEN_STRING;
    case 9: put(token, "dc64"); return TOKEN_STRING;
    case 10: put(token, "resb"); return TOKEN_STRING;
    case 11: put(token, "asciiz"); return TOKEN_STRING;
    case 12: put(token, "end"); return TOKEN_STRING;
    case 13: put(token, "equ"); return TOKEN_STRING;
    case 14: put(token, "mov"); return TOKEN_STRING;
    case 15: put(token, "5"); return TOKEN_NUMBER;
    default: put(token, ","); return TOKEN_SYMBOL;
  }
}
void tokens_push(AsmContext *, const char *, int) {}
int tokens_get_char(AsmContext *) { g_nchars++; ASSUME(g_nchars < (1 << 26)); int c = nondet_int(); ASSUME(c >= -1 && c <= 255); return c; }
int tokens_unget_char(AsmContext *, int) { return 0; }
void tokens_reset(AsmContext *) {}
static char g_mval[2];
char *macros_lookup(Macros *, char *, int *) { return (nondet_int() & 1) ? &g_mval[0] : 0; }
int macros_append(AsmContext *, char *, char *, int) { return 0; }
void macros_strip(char *) {}
void macros_strip_comment(AsmContext *) {}
int Macros::dump(FILE *) { return 0; }
Macros::Macros() {} Macros::~Macros() {} void Macros::reset() {}
Symbols::Symbols() {} Symbols::~Symbols() {}
int Symbols::append(const char *, uint32_t) { int r = nondet_int(); ASSUME(r == 0 || r == -1); if (r) { g_err_pending = 1; g_errors++; } return r; }
int Symbols::lookup(const char *, uint32_t *a) { *a = 0; return -1; }
int Symbols::print(FILE *) { return 0; }
Memory::Memory() {} Memory::~Memory() {}
static int status() { int r = nondet_int(); ASSUME(r == 0 || r == -1); if (r) { g_err_pending = 1; g_errors++; } return r; }
int parse_org(AsmContext *) { return status(); }
extern "C" int parse_db(AsmContext *, int) { return status(); }
int parse_dc16(AsmContext *) { return status(); }
int parse_dc32(AsmContext *) { return status(); }
int parse_dc64(AsmContext *) { return status(); }
int parse_varuint(AsmContext *, int) { return status(); }
extern "C" int parse_resb(AsmContext *, int) { return status(); }
int parse_directives(AsmContext *)
{
  int r = nondet_int(); ASSUME(r >= -1 && r <= 5);
  g_pd_last = r;
  if (r != 0 && r != 3 && r != 4 && r != 5) { g_err_pending = 1; g_errors++; }
  return r;
}
int parse_instruction_msp430(AsmContext *, char *) { return 0; }
void list_output_msp430(AsmContext *, uint32_t, uint32_t) {}
static int stub_parse_instruction(AsmContext *ctx, char *instr)
{
  int r = nondet_int(); ASSUME(r >= -1 && r <= 8);
  g_instr_ret = r; g_instr_addr0 = ctx->address; g_in_instr = 1;
  if (r < 0) { g_err_pending = 1; g_errors++; } else { ctx->address += r; }
  return r;
}
static void stub_list_output(AsmContext *ctx, uint32_t start, uint32_t end)
{
  g_list_calls++;
  if (!(g_in_instr && start == (uint32_t)g_instr_addr0 && end == (uint32_t)ctx->address)) g_list_ok = 0;
}
Linker::Linker() {} Linker::~Linker() {}
int Linker::add_file(const char *) { return 0; }
const char *Linker::get_symbol_at_index(int) { return 0; }
uint8_t *Linker::get_code_from_symbol(Imports **, const char *, uint32_t *, uint32_t *, uint8_t **, uint32_t *) { return 0; }
struct _cpu_list cpu_list[1];
static long g_file_obj[8];
/* loop-free strcmp contract for the keyword comparisons (strings of at most 8 characters) */
#define S1(k) if (r == 0 && !end) { int x = (unsigned char)a[k], y = (unsigned char)b[k]; if (x != y) r = x - y; else if (x == 0) end = 1; }
extern "C" int strcmp(const char *a, const char *b)
{
  int r = 0, end = 0;
  S1(0) S1(1) S1(2) S1(3) S1(4) S1(5) S1(6) S1(7) S1(8)
  return r;
}
extern "C" void __delete(void *p) {}
#define printf(...) (g_errors++, 0)
#define fprintf(...) (0)
#define putc(c, f) (c)
#include "core/AsmContext.cpp"
#undef printf
#undef fprintf
#undef putc

extern "C" void h_assemble()
{
  AsmContext ctx;
  ctx.linker = 0; ctx.parse_instruction = stub_parse_instruction; ctx.list_output = stub_list_output;
  ctx.list = (nondet_int() & 1) ? (FILE *)(void *)&g_file_obj[0] : 0; ctx.write_list_file = nondet_int() & 1;
  ctx.error_count = nondet_int(); ctx.error = nondet_int() & 1; ctx.address = nondet_int(); ctx.bytes_per_address = nondet_int(); ctx.cpu_type = nondet_int();
  ctx.tokens.line = nondet_int(); ctx.instruction_count = nondet_int(); ctx.code_count = nondet_int(); ctx.macros.stack_ptr = nondet_int();
  ASSUME(ctx.error_count >= 0 && ctx.error_count < 1000 && ctx.address >= 0 && ctx.address < (1 << 26) && (ctx.bytes_per_address == 1 || ctx.bytes_per_address == 2 || ctx.bytes_per_address == 4));
  ASSUME(ctx.tokens.line >= 0 && ctx.tokens.line < (1 << 26) && ctx.instruction_count >= 0 && ctx.instruction_count < (1 << 26) && ctx.code_count >= 0 && ctx.code_count < (1 << 26) && ctx.macros.stack_ptr >= 0 && ctx.macros.stack_ptr <= 128);
  const int ec0 = ctx.error_count; const int err0 = ctx.error;
  g_ntok = 0; g_err_pending = 0; g_eof_seen = 0; g_errors = 0; g_pd_last = 0; g_list_calls = 0; g_list_ok = 1; g_in_instr = 0; g_nchars = 0;
  g_p_error_count = &ctx.error_count; g_p_address = &ctx.address; g_p_line = &ctx.tokens.line; g_p_icount = &ctx.instruction_count; g_p_ccount = &ctx.code_count; g_p_error = &ctx.error;
  int r = ctx.assemble();
  OBL(r == 0 || r == 2 || r == 3 || r == 4 || r == -1, "C12.assemble: result is 0 (end), 2 (.else), 3 (.endr), 4 (.endif) or -1 (error)");
  if (r == 4) OBL(g_pd_last == 5, "C10.assemble: 4 is returned only when the directive handler reported the .endif of the block, and then at once");
  OBL(!g_err_pending || r == -1, "C12.assemble: an error reported by any statement handler makes assemble() fail (never skipped silently)");
  if (ec0 > 0) OBL(r == -1 && g_ntok == 0, "C12.assemble: an error recorded earlier (e.g. in pass 1 or by the tokenizer) fails the pass before any statement is read");
  if (r == 0) OBL(ctx.error == false, "C12.assemble: success is never reported with the error flag set");
  if (r == 3) OBL(g_pd_last == 3, "C12.assemble: 3 is returned only when the directive handler reported .endr");
  if (r == 2) OBL(g_pd_last == 4, "C12.assemble: 2 is returned only when the directive handler reported .else");
  OBL(g_list_ok, "C18.assemble: the listing callback receives exactly [address before the instruction, location counter after it)");
  CANARY("h_assemble end");
}
