/* C12 — contract of main() (main/naken_asm.cpp): diagnostics, exit status and output file agree.
 *
 * Every callee is replaced by a contract returning an arbitrary status and recording ghost events
 * (assemble pass 1/2, link, file_write, unlink, exit).  The program text is unbounded because
 * AsmContext::assemble() is a contract; the command line is bounded (argc <= 5, arguments of at
 * most 7 characters, all characters symbolic) and closed by unwinding assertions.
 * POST return 0  <=>  pass-1 assemble == 0 && link == 0 && pass-2 assemble == 0 && link == 0 && file_write == 0
 *      in every other case the status is non-zero and unlink(outfile) was called after the last possible write
 *      pass 2 never runs after a failed pass 1; the file is written only after a clean pass 2
 */
#include <stdio.h>
#include <stdlib.h>
#include <string.h>
#include <unistd.h>
#include "vh.h"
#include "core/AsmContext.h"
#include "fileio/file.h"

extern "C" {
int g_pass1_ret, g_pass2_ret, g_link1_ret, g_link2_ret, g_fw_ret;
int g_n_assemble, g_n_link, g_file_written, g_unlinked, g_unlink_after_write, g_exit_called, g_exit_code, g_order_ok, g_init_calls;
}
Memory::Memory() {} Memory::~Memory() {}
Symbols::Symbols() {} Symbols::~Symbols() {} Macros::Macros() {} Macros::~Macros() {}
AsmContext::AsmContext() { list = 0; quiet_output = 0; memory.low_address = 0; memory.high_address = 0; bytes_per_address = 1; pass = 1; linker = 0; dump_symbols = 0; dump_macros = 0; optimize = 0; write_list_file = 0; }
AsmContext::~AsmContext() {}
void AsmContext::init() { g_init_calls++; }
void AsmContext::print_info(FILE *out) {}
int AsmContext::link_file(const char *filename) { return -1; }
int AsmContext::assemble()
{
  g_n_assemble++;
  if (g_n_assemble == 2 && !(g_pass1_ret == 0 && g_link1_ret == 0)) g_order_ok = 0;   /* pass 2 only after a clean pass 1 */
  if (pass != g_n_assemble) g_order_ok = 0;
  if (g_init_calls != g_n_assemble) g_order_ok = 0;                                      /* init() before every pass */
  return (g_n_assemble == 1) ? g_pass1_ret : g_pass2_ret;
}
int AsmContext::link() { g_n_link++; return (g_n_link == 1) ? g_link1_ret : g_link2_ret; }
int Memory::read_debug(uint32_t address) { return nondet_int(); }
uint8_t Memory::read8(uint32_t address) { return nondet_uchar(); }
int tokens_open_file(AsmContext *asm_context, const char *filename) { asm_context->tokens.in = (FILE *)1; return (nondet_int() & 1) ? 0 : -1; }
int include_add_path(AsmContext *asm_context, const char *paths) { return 0; }
int file_write(const char *filename, AsmContext *asm_context, int file_type)
{
  if (!(g_n_assemble == 2 && g_pass1_ret == 0 && g_link1_ret == 0 && g_pass2_ret == 0 && g_link2_ret == 0)) g_order_ok = 0;
  if (g_fw_ret == 0) { g_file_written = 1; g_unlink_after_write = 0; }
  return g_fw_ret;
}
extern "C" {
int puts(const char *s) { return 0; }
int printf(const char *fmt, ...) { return 0; }
int fprintf(FILE *f, const char *fmt, ...) { return 0; }
int putc(int c, FILE *f) { return c; }
FILE *fopen(const char *name, const char *mode) { return (nondet_int() & 1) ? (FILE *)2 : (FILE *)0; }
int fclose(FILE *f) { return 0; }
int unlink(const char *name) { g_unlinked = 1; g_unlink_after_write = 1; return 0; }
void exit(int code) { g_exit_called = 1; g_exit_code = code; ASSUME(0); }
}
#define main naken_main
#include "main/naken_asm.cpp"
#undef main

extern "C" void h_main()
{
  char a0[2], a1[8], a2[8], a3[8], a4[8];
  a0[0] = 'n'; a0[1] = 0;
  for (int i = 0; i < 7; i++) { a1[i] = nondet_char(); a2[i] = nondet_char(); a3[i] = nondet_char(); a4[i] = nondet_char(); }
  a1[7] = 0; a2[7] = 0; a3[7] = 0; a4[7] = 0;
  char *argv[6]; argv[0] = a0; argv[1] = a1; argv[2] = a2; argv[3] = a3; argv[4] = a4; argv[5] = 0;
  int argc = nondet_int(); ASSUME(argc >= 2 && argc <= 5);
  g_pass1_ret = nondet_int(); g_pass2_ret = nondet_int(); g_link1_ret = nondet_int(); g_link2_ret = nondet_int(); g_fw_ret = nondet_int();
  ASSUME(g_fw_ret == 0 || g_fw_ret == -1);
  g_n_assemble = 0; g_n_link = 0; g_unlinked = 0; g_unlink_after_write = 0; g_file_written = 0; g_exit_called = 0; g_order_ok = 1; g_init_calls = 0;
  int r = naken_main(argc, argv);
  int clean = g_pass1_ret == 0 && g_link1_ret == 0 && g_pass2_ret == 0 && g_link2_ret == 0 && g_fw_ret == 0;
  OBL((r == 0) == clean, "C12.main: exit status 0 iff both passes, both link steps and the file write succeeded");
  OBL(clean || g_unlinked, "C12.main: the output path is unlinked on every failure");
  OBL(!clean || (g_file_written && !g_unlink_after_write), "C12.main: a complete file is left on success");
  OBL(clean || !g_file_written || g_unlink_after_write, "C12.main: no output file survives a failure");
  OBL(g_order_ok, "C12.main: phases run in order (init before each pass, pass 2 only after a clean pass 1, write only after a clean pass 2)");
  OBL(r == 0 || r == 1, "C12.main: exit status is 0 or 1");
  CANARY("h_main end");
}
