/* C12/C10 — contract of parse_directives (core/directives.cpp) and its static handlers
 * (parse_set, parse_export, parse_equ, parse_pragma, parse_device, parse_entry_point, parse_low/high_address,
 *  parse_repeat): one obligation group per directive spelling (-DDIRNAME="...").
 *
 * Callees outside the file are contracts returning an arbitrary status (and counting a diagnostic when they
 * fail): macros_parse, parse_if, parse_ifdef, parse_repeat's assemble(), include_parse, binfile_parse,
 * parse_align_*, parse_data_fill, eval_expression, expect_token, Symbols::set/export_symbol/scope_start,
 * macros_append, AsmContext::directive, the CPU-specific parse_directive hook.
 * POST  a diagnostic was produced  <=>  parse_directives returns -1   (no handler's error is dropped, no
 *       spurious failure);  the result is one of 0, 3 (.endr), 4 (.else), -1;
 *       .endif/.else outside a conditional and .endr outside a repeat are errors.
 */
#include "stub_ctx.h"
#include <stdio.h>
#include <stdlib.h>
#include <string.h>
#include "core/Macros.h"
#include "core/tokens.h"
#include "core/eval_expression.h"
#include "core/cpu_list.h"
#include "asm/common.h"

extern "C" { int g_ntok, g_first; }
static int fail_or_ok() { int r = nondet_int(); ASSUME(r == 0 || r == -1); if (r) g_errors++; return r; }
#define P1(k) if (!done) { t[k] = s[k]; if (s[k] == 0) done = 1; }
static void put(char *t, const char *s) { int done = 0; P1(0) P1(1) P1(2) P1(3) P1(4) P1(5) P1(6) P1(7) P1(8) P1(9) P1(10) P1(11) P1(12) P1(13) P1(14) }
int tokens_get(AsmContext *ctx, char *token, int len)
{
  g_ntok++;
  if (g_first) { g_first = 0; put(token, DIRNAME); return TOKEN_STRING; }
  int k = nondet_int(); ASSUME(k >= 0 && k <= 5);
  if (g_ntok > 8) k = 1;          /* stated bound: the rest of the directive's line has at most 8 tokens */
  switch (k)
  {
    case 0: token[0] = 0; return TOKEN_EOF;
    case 1: put(token, "\n"); return TOKEN_EOL;
    case 2: put(token, "name"); return TOKEN_STRING;
    case 3: put(token, "7"); return TOKEN_NUMBER;
    case 4: put(token, "="); return TOKEN_SYMBOL;
    default: put(token, ","); return TOKEN_SYMBOL;
  }
}
void tokens_push(AsmContext *, const char *, int) {}
int eval_expression(AsmContext *, int *num) { *num = nondet_int(); int r = nondet_int(); ASSUME(r == 0 || r == -1); return r; }
int eval_expression(AsmContext *, Var &) { return -1; }
int ignore_operand(AsmContext *) { return 0; }
int expect_token(AsmContext *, char) { return fail_or_ok(); }
int expect_token_s(AsmContext *, const char *) { return fail_or_ok(); }
int macros_parse(AsmContext *, int) { return fail_or_ok(); }
int macros_append(AsmContext *, char *, char *, int) { return fail_or_ok(); }
int parse_if(AsmContext *) { return fail_or_ok(); }
int parse_ifdef(AsmContext *, int) { return fail_or_ok(); }
int include_parse(AsmContext *) { return fail_or_ok(); }
int binfile_parse(AsmContext *) { return fail_or_ok(); }
int parse_align_bits(AsmContext *) { return fail_or_ok(); }
int parse_align_bytes(AsmContext *) { return fail_or_ok(); }
int parse_data_fill(AsmContext *) { return fail_or_ok(); }
int Symbols::set(const char *, uint32_t) { int r = nondet_int(); ASSUME(r == 0 || r == -1); return r; }
int Symbols::export_symbol(const char *) { int r = nondet_int(); ASSUME(r == 0 || r == -1); if (r) g_errors++; return r; }
int Symbols::append(const char *, uint32_t) { int r = nondet_int(); ASSUME(r == 0 || r == -1); if (r) g_errors++; return r; }
int Symbols::scope_start() { int r = nondet_int(); ASSUME(r == 0 || r == -1); return r; }
int AsmContext::assemble() { int r = nondet_int(); ASSUME(r == 0 || r == 2 || r == 3 || r == 4 || r == -1); if (r == -1) g_errors++; return r; }
int AsmContext::directive(char *) { int r = nondet_int(); ASSUME(r == 0 || r == 1 || r == 2 || r == -1); if (r == -1) g_errors++; return r; }
uint8_t Memory::read8(uint32_t) { return nondet_uchar(); }
void Memory::write(uint32_t, uint8_t, int) {}
void add_bin8(AsmContext *ctx, uint8_t, int) { ctx->address++; }
static int hook(AsmContext *, const char *) { int r = nondet_int(); ASSUME(r == 0 || r == 1 || r == -1); if (r == -1) g_errors++; return r; }
static void list_out(AsmContext *, uint32_t, uint32_t) {}
extern "C" int atoi(const char *s) { return nondet_int(); }
#define printf(...) (g_errors++, 0)
#define fprintf(...) (0)
struct _cpu_list cpu_list[1];      /* empty CPU table: a name that is no directive takes the unknown-directive path */
#include "gen/AsmContext_set_cpu.inc"
#include "core/directives.cpp"
#undef printf
#undef fprintf

extern "C" void h_directive()
{
  AsmContext ctx;
  ctx.tokens.line = 1; ctx.tokens.filename = "x.asm"; ctx.pass = nondet_int(); ASSUME(ctx.pass == 1 || ctx.pass == 2);
  ctx.ifdef_count = nondet_int(); ASSUME(ctx.ifdef_count >= 0 && ctx.ifdef_count < 100);
  ctx.in_repeat = nondet_int() & 1; ctx.address = nondet_int(); ASSUME(ctx.address >= 0 && ctx.address < 1000);
  ctx.bytes_per_address = 1; ctx.list = 0; ctx.write_list_file = 0; ctx.segment = 0; ctx.msp430_cpu4 = 0; ctx.pass_1_write_disable = 0;
  ctx.parse_directive = (nondet_int() & 1) ? hook : 0; ctx.list_output = list_out;
  ctx.memory.low_address = 0; ctx.memory.high_address = 0; ctx.memory.entry_point = 0; ctx.memory.endian = 0;
  g_ntok = 0; g_first = 1; g_errors = 0;
  int r = parse_directives(&ctx);
  OBL(r == 0 || r == 3 || r == 4 || r == 5 || r == -1, "C12.directives: result is 0, 3 (.endr), 4 (.else), 5 (.endif) or -1");
  if (r == 5) OBL(ctx.ifdef_count >= 1, "C10.directives: .endif is accepted only inside a conditional block");
  if (r == 4) OBL(ctx.ifdef_count >= 1, "C10.directives: .else is accepted only inside a conditional block");
  if (r == 3) OBL(ctx.in_repeat == 1, "C09.directives: .endr is accepted only inside a repeat block");
  OBL((g_errors > 0) == (r == -1), "C12.directives: a diagnostic is produced exactly when the directive fails (no handler error is dropped)");
  CANARY("h_directive end");
}
