/* C11 — contract of Symbols (core/Symbols.cpp, core/MemoryPool.cpp) against an abstract view:
 * a list of (name, scope, address, rw) records maintained by the harness.
 *
 * BOUNDED stand-in (linked pools of variable-length records; DESIGN 1): at most 2 or 3 records,
 * names of 1..2 characters over {a, b}, addresses symbolic 32-bit, pool size re-#defined (-DSYMBOLS_HEAP_SIZE)
 * so that the second record lands in a second pool when POOL is small.
 * Scenarios (-DSCN): 1 append/append/lookup/count/iterate (global scope)
 *                    2 scope shadowing: global g, local definition of the same name inside a scope, lookups inside/outside
 *                    3 .set: set creates a rw symbol, re-set updates it, set on a label fails, lock() freezes append
 */
#include <stdio.h>
#include <stdlib.h>
#include <string.h>
#include "vh.h"
#ifdef POOL
#define SYMBOLS_HEAP_SIZE_OVERRIDE POOL
#endif
#include "core/Symbols.h"
#ifdef POOL
#undef SYMBOLS_HEAP_SIZE
#define SYMBOLS_HEAP_SIZE POOL
#endif
extern "C" int printf(const char *fmt, ...) { return 0; }
extern "C" int fprintf(FILE *f, const char *fmt, ...) { return 0; }
#include "core/MemoryPool.cpp"
#include "core/Symbols.cpp"

static void name2(char *n)
{
  n[0] = nondet_char(); n[1] = nondet_char(); n[2] = 0;
  ASSUME(n[0] >= 'a' && n[0] <= 'b' && (n[1] == 0 || (n[1] >= 'a' && n[1] <= 'b')));
}
static int eq(const char *a, const char *b) { return a[0] == b[0] && a[1] == b[1]; }

extern "C" void h_sym()
{
  Symbols s;
  char n1[3], n2[3];
  name2(n1); name2(n2);
  unsigned a1 = nondet_uint(), a2 = nondet_uint(), v = 0;
#if SCN == 1
  int same = eq(n1, n2);
  OBL(s.lookup(n1, &v) == -1 && s.count() == 0, "C11.sym: an empty table resolves nothing");
  int r1 = s.append(n1, a1);
  OBL(r1 == 0, "C11.sym: the first definition of a name is accepted");
  int r2 = s.append(n2, a2);
  OBL((r2 == -1) == same, "C11.sym: defining the same name twice in one scope is an error, distinct names are accepted");
  OBL(s.lookup(n1, &v) == 0 && v == a1, "C11.sym: a reference resolves to its definition (first symbol)");
  if (!same) { OBL(s.lookup(n2, &v) == 0 && v == a2, "C11.sym: a reference resolves to its definition (second symbol, possibly in a second pool)"); }
  OBL(s.count() == (same ? 1 : 2), "C11.sym: count() is the number of definitions");
  SymbolsIter it; int k = 0; int order_ok = 1;
  for (int i = 0; i < 4; i++)
  {
    if (k == i && s.iterate(&it) != -1)
    {
      k++;
      if (k == 1 && !(eq(it.name, n1) && it.address == a1)) order_ok = 0;
      if (k == 2 && !(eq(it.name, n2) && it.address == a2)) order_ok = 0;
    }
  }
  OBL(k == (same ? 1 : 2) && order_ok, "C11.sym: iterate visits every definition exactly once, in definition order, across pools");
  OBL(it.count == k, "C11.sym: the iterator counts what it visited");
  OBL(s.export_symbol(n1) == 0 && s.export_count() == 1, "C11.sym: an exported global symbol is counted once");
#elif SCN == 2
  /* global n1, then inside a scope a local definition of the same name (names of one character) */
  ASSUME(n1[1] == 0);
  OBL(s.append(n1, a1) == 0, "C11.scope: global definition accepted");
  OBL(s.scope_start() == 0, "C11.scope: a scope opens");
  OBL(s.lookup(n1, &v) == 0 && v == a1, "C11.scope: inside a scope a name without local definition resolves to the global one");
  OBL(s.append(n1, a2) == 0, "C11.scope: a local definition may shadow a global one");
  OBL(s.lookup(n1, &v) == 0 && v == a2, "C11.scope: inside the scope the local definition wins");
  s.scope_end();
  OBL(s.lookup(n1, &v) == 0 && v == a1, "C11.scope: outside the scope the global definition is visible again");
#elif SCN == 4
  /* local labels of different scopes never interfere; duplicates inside one scope are errors */
  ASSUME(n1[1] == 0);
  OBL(s.scope_start() == 0 && s.scope_start() == -1, "C11.scope: a scope opens, scopes do not nest");
  OBL(s.append(n1, a1) == 0 && s.append(n1, a2) == -1, "C11.scope: defining a local name twice in its scope is an error");
  OBL(s.export_symbol(n1) == -1, "C11.scope: a local symbol cannot be exported");
  s.scope_end();
  OBL(s.lookup(n1, &v) == -1, "C11.scope: a local label is not visible outside its scope");
  OBL(s.scope_start() == 0, "C11.scope: a second scope opens");
  OBL(s.append(n1, a2) == 0 && s.lookup(n1, &v) == 0 && v == a2, "C11.scope: the same local name can be defined in another scope and resolves there");
  s.scope_end();
#elif SCN == 6
  /* long names: the record length is kept in one byte (Entry::len).  A name of NAMELEN characters is either rejected, or
     stored with its true record length - so that the walk over the pool stays in step and later symbols stay visible. */
  static char longname[NAMELEN + 1];
  for (int i = 0; i < NAMELEN; i++) longname[i] = 'a';
  longname[NAMELEN] = 0;
  int r1 = s.append(longname, a1);
  if (r1 == 0)
  {
    /* the record just written is the first one of the first pool */
    MemoryPool *mp = s.memory_pool;
    Symbols::Entry *e = (Symbols::Entry *)(void *)&mp->buffer[0];
    OBL((int)e->len == NAMELEN + 1, "C11.sym: an accepted name is stored with its true record length (the one-byte length field does not wrap)");
    OBL(mp->ptr == (int)sizeof(Symbols::Entry) + (int)e->len, "C11.sym: the next record starts where the stored length says (the walk over the pool stays in step, later symbols stay visible)");
  }
  else
  {
    OBL(NAMELEN + 1 > 255, "C11.sym: only names whose record does not fit the length field are rejected");
  }
#elif SCN == 3
  ASSUME(n1[1] == 0);
  OBL(s.set(n1, a1) == 0, "C11.set: .set defines a new read-write symbol");
  OBL(s.lookup(n1, &v) == 0 && v == a1, "C11.set: the symbol holds the assigned value");
  OBL(s.set(n1, a2) == 0, "C11.set: .set may assign again");
  OBL(s.lookup(n1, &v) == 0 && v == a2, "C11.set: the symbol holds the value most recently assigned");
  s.lock();
  OBL(s.set(n1, a1) == 0 && s.lookup(n1, &v) == 0 && v == a1, "C11.set: after lock() (pass 2) a .set symbol still follows its assignments in source order");
#else
  ASSUME(n1[1] == 0 && n2[1] == 0 && !eq(n1, n2));
  OBL(s.append(n2, a1) == 0, "C11.set: a label is defined");
  OBL(s.set(n2, a2) == -1, "C11.set: .set cannot overwrite a label");
  OBL(s.lookup(n2, &v) == 0 && v == a1, "C11.set: the label keeps its address");
  s.lock();
  OBL(s.append(n1, 5) == 0 && s.lookup(n1, &v) == -1, "C11.set: after lock() (pass 2) label definitions are ignored");
#endif
  CANARY("h_sym end");
}
