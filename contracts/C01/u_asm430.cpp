/* C01/C02/C06/C12 — contract of parse_instruction_msp430 (asm/msp430.cpp) with add_bin16 (core/add_bin.cpp)
 * against spec_encode(), transcribed from SLAU144 section 3.3/3.4:
 *   double operand  op | Rs<<8 | Ad<<7 | B/W<<6 | As<<4 | Rd   [+ source ext word] [+ destination ext word]
 *   single operand  0x1000 | op<<7 | B/W<<6 | As<<4 | Rn
 *   jump            0x2000 | cond<<10 | 10-bit signed word offset from PC+2
 *   constant generators (table 3-2): #0 #1 #2 #-1 via R3, #4 #8 via R2
 *   symbolic mode X = target - address of the extension word; absolute mode via R2.
 *
 * One group per instruction form (-DROW table row, -DSRCFORM, -DDSTFORM, -DBWSEL); register numbers,
 * operand values (all 2^32) and the load address are symbolic; token KINDS are concrete (token script).
 * POST (pass 2) accepted  => emitted bytes == spec_encode(form), return value == bytes emitted ==
 *                            location counter advance; operand value lies in the field's range
 *               rejected  => nothing emitted, a diagnostic was printed
 *      (two-pass, -DTWOPASS) size reserved in pass 1 (operand resolved or not) == size emitted in pass 2
 * The real cpu_list[] row of "msp430" provides the per-CPU options (never set by hand).
 */
#include "stub_ctx.h"
#include "core/eval_expression.h"
#include "asm/common.h"
#include "asm/msp430.h"
#include "table/msp430.h"

extern "C" {
int g_tt[16]; char g_ts[16][8]; int g_isexpr[16]; int g_tv[16]; int g_tok_ok[16]; int g_len, g_pos;
unsigned g_wa[8]; unsigned char g_wd[8]; int g_wn; int g_log_full; unsigned char g_flag; unsigned g_flag_addr; int g_stray_read;
}
void Memory::write(uint32_t address, uint8_t data, int line)
{
  if (g_wn >= 8) { g_log_full = 1; return; }
  g_wa[g_wn] = address; g_wd[g_wn] = data; g_wn++;
  if (address == g_flag_addr) g_flag = data;
}
void Memory::write8(uint32_t address, uint8_t data) { if (address == g_flag_addr) g_flag = data; else g_stray_read = 1; }
uint8_t Memory::read8(uint32_t address) { if (address != g_flag_addr) g_stray_read = 1; return g_flag; }

int tokens_get(AsmContext *asm_context, char *token, int len)
{
  if (g_pos >= g_len) { token[0] = 0; return TOKEN_EOF; }
  for (int i = 0; i < 8; i++) token[i] = g_ts[g_pos][i];
  return g_tt[g_pos++];
}
void tokens_push(AsmContext *asm_context, const char *token, int token_type) { OBL(g_pos > 0, "C01.asm: push-back only after a read"); g_pos--; }
int ignore_operand(AsmContext *asm_context)
{
  for (int k = 0; k < 16; k++)
    if (g_pos < g_len && !(g_tt[g_pos] == TOKEN_EOL || (g_ts[g_pos][0] == ',' && g_ts[g_pos][1] == 0))) g_pos++;
  return 0;
}
int eval_expression(AsmContext *asm_context, int *num)
{
  if (g_pos >= g_len || !g_isexpr[g_pos]) { *num = 0; return -1; }
  if (!g_tok_ok[g_pos]) { *num = 0; return -1; }
  *num = g_tv[g_pos]; g_pos++;
  return 0;
}
int expect_token(AsmContext *asm_context, char ch) { return -1; }
void lower_copy(char *d, const char *s) { for (int i = 0; i < 16; i++) { char c = s[i]; if (c >= 'A' && c <= 'Z') c += 32; d[i] = c; if (s[i] == 0) break; } }
extern "C" int printf(const char *fmt, ...) { return 0; }

#include "core/add_bin.cpp"
#include "asm/msp430.cpp"
#include "table/msp430.cpp"
#include "core/cpu_list.h"
#include "gen/AsmContext_set_cpu.inc"

static void tok(int type, const char *s)
{
  int i = 0; for (; s[i] && i < 7; i++) g_ts[g_len][i] = s[i]; for (; i < 8; i++) g_ts[g_len][i] = 0;
  g_tt[g_len] = type; g_isexpr[g_len] = 0; g_tok_ok[g_len] = 1; g_len++;
}
static void tok_reg(int r) { char b[8] = {0}; b[0] = 'r'; if (r >= 10) { b[1] = '1'; b[2] = '0' + (r - 10); } else { b[1] = '0' + r; } tok(TOKEN_STRING, b); }
static void tok_expr(int v, int ok) { tok(TOKEN_NUMBER, "0"); g_isexpr[g_len - 1] = 1; g_tv[g_len - 1] = v; g_tok_ok[g_len - 1] = ok; }

enum { F_REG = 0, F_IMM = 1, F_IND = 2, F_INDINC = 3, F_ABS = 4, F_IDX = 5, F_SYM = 6, F_NONE = 7 };
#ifndef ROW
#define ROW 19
#endif
#ifndef SRCFORM
#define SRCFORM 0
#endif
#ifndef DSTFORM
#define DSTFORM 0
#endif
#ifndef BWSEL
#define BWSEL 0      /* 0 no suffix, 1 ".b", 2 ".w" */
#endif

static void emit_operand(int form, int reg, int val, int ok)
{
  switch (form)
  {
    case F_REG: tok_reg(reg); break;
    case F_IMM: tok(TOKEN_POUND, "#"); tok_expr(val, ok); break;
    case F_IND: tok(TOKEN_SYMBOL, "@"); tok_reg(reg); break;
    case F_INDINC: tok(TOKEN_SYMBOL, "@"); tok_reg(reg); tok(TOKEN_SYMBOL, "+"); break;
    case F_ABS: tok(TOKEN_SYMBOL, "&"); tok_expr(val, ok); break;
    case F_IDX: tok_expr(val, ok); tok(TOKEN_SYMBOL, "("); tok_reg(reg); tok(TOKEN_SYMBOL, ")"); break;
    case F_SYM: tok_expr(val, ok); break;
    default: break;
  }
}
static void script(int rs, int sv, int sok, int rd, int dv, int dok)
{
  g_len = 0; g_pos = 0;
  if (BWSEL == 1) { tok(TOKEN_SYMBOL, "."); tok(TOKEN_STRING, "b"); }
  if (BWSEL == 2) { tok(TOKEN_SYMBOL, "."); tok(TOKEN_STRING, "w"); }
  if (SRCFORM != F_NONE) { emit_operand(SRCFORM, rs, sv, sok); }
  if (SRCFORM != F_NONE && DSTFORM != F_NONE) tok(TOKEN_SYMBOL, ",");
  if (DSTFORM != F_NONE) { emit_operand(DSTFORM, rd, dv, dok); }
  tok(TOKEN_EOL, "\n");
}

/* --- specification --- */
struct Enc { int ok; int n; unsigned w[3]; };
static int is_cg(int v) { return v == -1 || v == 0 || v == 1 || v == 2 || v == 4 || v == 8; }
/* source field: returns As, sets *reg and possibly an extension word */
static int spec_src(int form, int reg, int val, int bw, unsigned a_ext, int *sreg, int *has_ext, unsigned *ext, int *ok)
{
  *has_ext = 0; *sreg = reg;
  switch (form)
  {
    case F_REG: return 0;
    case F_IND: return 2;
    case F_INDINC: return 3;
    case F_ABS: *sreg = 2; *has_ext = 1; *ext = (unsigned)val & 0xffff; if (val < 0 || val > 65535) *ok = 0; return 1;   /* absolute addresses are unsigned 16-bit */
    case F_IDX: *has_ext = 1; *ext = (unsigned)val & 0xffff; if (val < -32768 || val > 65535) *ok = 0; return 1;
    case F_SYM: *sreg = 0; *has_ext = 1; *ext = ((unsigned)val - a_ext) & 0xffff; if (val < 0 || val > 65535) *ok = 0; return 1;
    case F_IMM:
    {
      int lo = bw ? -128 : -32768, hi = bw ? 255 : 65535;
      if (val < lo || val > hi) { *ok = 0; return 3; }
      int v = val; if (bw && v == 0xff) v = -1; if (!bw && v == 0xffff) v = -1;
      if (is_cg(v))
      {
        *sreg = (v == 4 || v == 8) ? 2 : 3;
        return (v == 0) ? 0 : (v == 1) ? 1 : (v == 2 || v == 4) ? 2 : 3;
      }
      *sreg = 0; *has_ext = 1; *ext = (unsigned)val & 0xffff;
      return 3;
    }
  }
  return 0;
}
static Enc spec_two(unsigned op, int bw, int rs, int sv, int rd, int dv, unsigned a0)
{
  Enc e; e.ok = 1; e.n = 1;
  int sreg, sh; unsigned sx = 0;
  int As = spec_src(SRCFORM, rs, sv, bw, a0 + 2, &sreg, &sh, &sx, &e.ok);
  int dreg = rd, dh = 0, Ad = 0; unsigned dx = 0;
  unsigned a_dext = a0 + 2 + (sh ? 2 : 0);
  if (DSTFORM == F_ABS) { dreg = 2; Ad = 1; dh = 1; dx = (unsigned)dv & 0xffff; if (dv < 0 || dv > 65535) e.ok = 0; }
  else if (DSTFORM == F_IDX) { Ad = 1; dh = 1; dx = (unsigned)dv & 0xffff; if (dv < -32768 || dv > 65535) e.ok = 0; }
  else if (DSTFORM == F_SYM) { dreg = 0; Ad = 1; dh = 1; dx = ((unsigned)dv - a_dext) & 0xffff; if (dv < 0 || dv > 65535) e.ok = 0; }
  e.w[0] = op | ((unsigned)sreg << 8) | ((unsigned)Ad << 7) | ((unsigned)bw << 6) | ((unsigned)As << 4) | (unsigned)dreg;
  if (sh) e.w[e.n++] = sx;
  if (dh) e.w[e.n++] = dx;
  return e;
}

extern "C" void h_asm()
{
  AsmContext ctx_obj; AsmContext *ctx = &ctx_obj;
  int idx = -1;
  for (int n = 0; n < 80; n++) { if (idx < 0 && cpu_list[n].name != 0 && cpu_list[n].type == CPU_TYPE_MSP430 && cpu_list[n].parse_instruction == parse_instruction_msp430) idx = n; }
  ASSUME(idx >= 0);
  ctx->set_cpu(idx);
  ctx->address = nondet_int(); ctx->tokens.line = nondet_int(); ctx->tokens.filename = "x.asm";
  ctx->optimize = 0; ctx->msp430_cpu4 = 0; ctx->pass = 2;
  ASSUME(ctx->address >= 0 && ctx->address < 0xfff0 && (ctx->address & 1) == 0);
  ASSUME(ctx->tokens.line >= 0 && ctx->tokens.line < 100000);
  const unsigned a0 = ctx->address; g_flag_addr = a0; g_flag = 0; g_wn = 0; g_log_full = 0; g_errors = 0; g_stray_read = 0;
  int rs = nondet_int(), rd = nondet_int(), sv = nondet_int(), dv = nondet_int();
  ASSUME(rs >= 4 && rs < 16 && rd >= 4 && rd < 16);
  char instr[TOKENLEN]; const char *name = table_msp430[ROW].instr; { int i = 0; for (; name[i] && i < 15; i++) instr[i] = name[i]; instr[i] = 0; }
  const int bw = (BWSEL == 1) ? 1 : 0;
  const unsigned op = table_msp430[ROW].opcode;

#ifdef TWOPASS
  ctx->optimize = nondet_int() & 1;         /* with and without -optimize */
  /* pass 1: each expression operand is either resolved to its value or unresolved (forward reference) */
  int sok = nondet_int() & 1, dok = nondet_int() & 1;
  int sv1 = sv, dv1 = dv;
  ctx->pass = 1;
  script(rs, sv1, sok, rd, dv1, dok);
  int r1 = parse_instruction_msp430(ctx, instr);
  int size1 = ctx->address - (int)a0;
  /* pass 2 from the same address: resolved operands keep their value, forward references get an arbitrary one;
     the flag byte written in pass 1 is carried by the memory contract */
  ctx->address = a0; ctx->pass = 2; g_wn = 0; g_errors = 0;
  int sv2 = sok ? sv1 : nondet_int(), dv2 = dok ? dv1 : nondet_int();
  script(rs, sv2, 1, rd, dv2, 1);
  int r2 = parse_instruction_msp430(ctx, instr);
  int size2 = ctx->address - (int)a0;
  if (r1 >= 0 && r2 >= 0) OBL(size1 == size2, "C02.asm: the size reserved in pass 1 equals the size emitted in pass 2");
  OBL(!g_stray_read, "C02.asm: the encoder reads back only the flag byte at the instruction's own address");
  OBL(r1 < 0 || (g_errors >= 0), "C02.asm: pass 1 completes");
#else
  script(rs, sv, 1, rd, dv, 1);
  int r = parse_instruction_msp430(ctx, instr);
#ifdef JUMP
  /* jump: 0x2000 | cond<<10 | 10-bit signed WORD offset relative to the next instruction; target even */
  Enc e; e.ok = 1; e.n = 1;
  {
    int off = sv - (int)(a0 + 2);
    if ((sv & 1) != 0 || off < -1024 || off > 1022) e.ok = 0;
    e.w[0] = op | (((unsigned)off >> 1) & 0x3ff);
  }
#else
  Enc e = spec_two(op, bw, rs, sv, rd, dv, a0);
#endif
  OBL(!g_log_full && !g_stray_read, "C01.asm: at most three words are emitted and only the flag byte is read back");
  if (r >= 0)
  {
    OBL(e.ok, "C06.asm: an operand value outside the field's range is rejected, not wrapped");
    OBL(g_wn == 2 * e.n && r == 2 * e.n, "C01.asm: return value and bytes emitted equal the manual's instruction length");
    OBL(ctx->address == (int)a0 + r, "C01.asm: location counter advanced by the emitted size");
    int same = 1;
    for (int k = 0; k < 3; k++) if (k < e.n && 2 * k + 1 < g_wn)
    {
      unsigned w = g_wd[2 * k] | (g_wd[2 * k + 1] << 8);
      if (w != e.w[k] || g_wa[2 * k] != a0 + 2 * k || g_wa[2 * k + 1] != a0 + 2 * k + 1) same = 0;
    }
    OBL(same, "C01.asm: emitted words equal the architecture manual's encoding, little endian, at consecutive addresses");
    OBL(g_errors == 0, "C12.asm: no diagnostic when the instruction is accepted");
  }
  else
  {
    OBL(g_errors > 0, "C12.asm: a rejected instruction is reported with a diagnostic");
    OBL(g_wn == 0 && ctx->address == (int)a0, "C12.asm: nothing is emitted for a rejected instruction");
    OBL(!e.ok, "C01.asm: every operand value within the field's range is accepted");
  }
#endif
  CANARY("h_asm end");
}
