/* C01 — text side of the MSP430 symbolic addressing mode (ADDR = X(PC)): contracts of get_source_reg and get_dest_reg of
 * disasm/msp430.cpp (static; both function texts extracted verbatim).  SLAU144 section 3.3.3: the operand's address is the
 * address of the extension word plus the sign-extended extension word; the assembler encodes `mov SRC, DST` with the source
 * extension word at instruction+2 and the destination extension word after it (C01 encoder contract).
 * PRE   MSP430 core (no 20-bit prefix), instruction address below 0x10000, any memory content; for the destination the
 *       bytes already consumed by the source operand (count = 0 or 2).
 * POST  the address shown for a symbolic operand is (address of its extension word + X) mod 2^16 - the value for which the
 *       assembler produces exactly these bytes - and the operand consumes one extension word.
 */
#include <stdio.h>
#include <stdlib.h>
#include <string.h>
#include <stdint.h>
#include "vh.h"
#include "core/Memory.h"
extern "C" { unsigned g_base; unsigned char g_win[8]; int g_outside; int g_shown, g_nshown; }
Memory::Memory() {} Memory::~Memory() {}
uint8_t Memory::read8(uint32_t a) { unsigned off = a - g_base; if (off >= 8) { g_outside = 1; return 0; } return g_win[off]; }
uint16_t Memory::read16(uint32_t a) { return (uint16_t)(read8(a) | (read8(a + 1) << 8)); }
static const char *regs[] = { "PC", "SP", "SR", "CG", "r4", "r5", "r6", "r7", "r8", "r9", "r10", "r11", "r12", "r13", "r14", "r15" };
/* formatting contract: records the integer rendered by the address-like formats */
static int vs_snprintf(char *d, size_t n, const char *f, int v) { if (f[0] == '0' && f[1] == 'x') { g_shown = v; g_nshown++; } d[0] = 'x'; d[1] = 0; return 1; }
static int vs_snprintf(char *d, size_t n, const char *f, int v, const char *s) { d[0] = 'x'; d[1] = 0; return 1; }
static int vs_snprintf(char *d, size_t n, const char *f, const char *s) { d[0] = 'x'; d[1] = 0; return 1; }
static char *vs_strcat(char *d, const char *s) { d[0] = 'x'; d[1] = 0; return d; }
#define snprintf vs_snprintf
#define strcat vs_strcat
#define strcpy vs_strcat
#include "gen/msp430_get_source_reg.inc"
#include "gen/msp430_get_dest_reg.inc"
#undef snprintf
#undef strcat
#undef strcpy
extern "C" void h_dis430_sym()
{
  Memory m; char text[128];
  unsigned address = nondet_uint(); ASSUME(address < 0x10000u - 8 && (address & 1) == 0);
  g_base = address; g_outside = 0;
  for (int i = 0; i < 8; i++) g_win[i] = nondet_uchar();
  int bw = nondet_int() & 1;
  /* source operand in symbolic mode: register PC, As = 1; extension word at address + 2 */
  g_nshown = 0; g_shown = 0;
  int c1 = get_source_reg(&m, address, 0, 1, bw, text, sizeof(text), 0xffff, 0);
  int x1 = (short)(g_win[2] | (g_win[3] << 8));
  OBL(c1 == 2 && g_nshown == 1 && g_shown == (int)((address + 2 + (unsigned)x1) & 0xffff), "C01.dis430: a symbolic source operand shows (address of its extension word + X) mod 2^16 and takes one extension word");
  /* destination operand in symbolic mode after a source that consumed `count` bytes */
  int count = (nondet_int() & 1) ? 2 : 0;
  g_nshown = 0; g_shown = 0;
  int c2 = get_dest_reg(&m, address, 0, 1, text, sizeof(text), count, 0xffff, 0);
  int x2 = (short)(g_win[count + 2] | (g_win[count + 3] << 8));
  OBL(c2 == count + 2 && g_nshown == 1 && g_shown == (int)((address + (unsigned)count + 2 + (unsigned)x2) & 0xffff), "C01.dis430: a symbolic destination operand shows (address of its extension word + X) mod 2^16, the extension word following the source's");
  OBL(!g_outside, "C01.dis430: only the bytes of the instruction are read");
  CANARY("h_dis430_sym end");
}
