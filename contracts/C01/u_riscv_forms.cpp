/* C01/C06 — contract of parse_instruction_riscv (asm/riscv.cpp, the real translation unit and the real table_riscv[]) for
 * RV32I instruction forms, one form per group (-DFORM, -DMNEM, -DF3):
 *   FORM 1  load      "<mnem> rd, N(rs1)"        imm[11:0] rs1 f3 rd 0000011
 *   FORM 2  store     "<mnem> rs2, N(rs1)"       imm[11:5] rs2 rs1 f3 imm[4:0] 0100011
 *   FORM 3  ALU-imm   "<mnem> rd, rs1, N"        imm[11:0] rs1 f3 rd 0010011
 *   FORM 4  branch    "<mnem> rs1, rs2, target"  B-type immediate, rs2 rs1 f3 1100011, offset = target - address
 *   FORM 5  jal       "jal rd, target"           J-type immediate, rd 1101111
 *   FORM 6  R-type    "<mnem> rd, rs1, rs2"      funct7 rs2 rs1 f3 rd 0110011
 *   FORM 7  shift-imm "<mnem> rd, rs1, N"        funct7 shamt rs1 f3 rd 0010011 (shamt 0..31)
 * (The RISC-V Instruction Set Manual, Volume I, chapter 2 and the instruction listing.)  Registers x0..x31 and N / target
 * are symbolic (all 32-bit values), the location counter is any multiple of 4 below 2^30, pass 2.
 * POST  N (or the offset) representable in the form's immediate field  => accepted, exactly one 32-bit word is emitted and
 *       it equals the manual's encoding;   not representable => rejected (-1, a diagnostic, nothing emitted).
 */
#include "stub_ctx.h"
#include <stdio.h>
#include <stdlib.h>
#include <string.h>
#include "core/tokens.h"
#include "core/eval_expression.h"
#ifndef F7
#define F7 0
#endif
#define VSTR(x) #x
#define VXSTR(x) VSTR(x)
extern "C" { int g_pos, g_len, g_type[12]; char g_tok[12][4]; int g_N; unsigned g_word; int g_nwords; }
int tokens_get(AsmContext *asm_context, char *token, int len)
{
  if (g_pos >= g_len) { token[0] = 0; return TOKEN_EOF; }      /* the script ends with an explicit end-of-line token */
  token[0] = g_tok[g_pos][0]; token[1] = g_tok[g_pos][1]; token[2] = g_tok[g_pos][2]; token[3] = 0;
  return g_type[g_pos++];
}
void tokens_push(AsmContext *asm_context, const char *token, int token_type) { if (g_pos > 0) g_pos--; }
int eval_expression(AsmContext *asm_context, int *num) { *num = g_N; g_pos++; return 0; }
int eval_expression(AsmContext *asm_context, Var &var) { return -1; }
void add_bin32(AsmContext *ctx, uint32_t b, int flags) { g_word = b; g_nwords++; ctx->address += 4; }
void add_bin16(AsmContext *ctx, uint16_t b, int flags) { g_nwords += 100; }
int get_int(AsmContext *) { return 0; }
uint8_t Memory::read8(uint32_t a) { return 0; }
void Memory::write8(uint32_t a, uint8_t d) {}
void Memory::write(uint32_t a, uint8_t d, int line) {}
int Memory::read_debug(uint32_t a) { return 0; }
void Memory::write_debug(uint32_t a, int line) {}
#define printf(...) (g_errors++, 0)
#include "asm/common.cpp"
#include "table/riscv.cpp"
#include "asm/riscv.cpp"
#undef printf
static void tk(int type, char a, char b, char c) { g_tok[g_len][0] = a; g_tok[g_len][1] = b; g_tok[g_len][2] = c; g_tok[g_len][3] = 0; g_type[g_len] = type; g_len++; }
static void reg(int r) { if (r < 10) tk(TOKEN_STRING, 'x', (char)('0' + r), 0); else tk(TOKEN_STRING, 'x', (char)('0' + r / 10), (char)('0' + r % 10)); }
static void comma() { tk(TOKEN_SYMBOL, ',', 0, 0); }
static void num() { tk(TOKEN_NUMBER, '1', 0, 0); }
static unsigned bit(unsigned v, int n) { return (v >> n) & 1u; }
extern "C" void h_riscv_form()
{
  AsmContext ctx; ctx.pass = 2; ctx.tokens.line = 1; ctx.tokens.filename = "x.asm"; ctx.bytes_per_address = 1; ctx.flags = 0; ctx.extra_context = 0;
  ctx.address = nondet_int(); ASSUME(ctx.address >= 0 && ctx.address < (1 << 30) && (ctx.address & 3) == 0);
  const int addr0 = ctx.address;
  int ra = nondet_int(), rb = nondet_int(); g_N = nondet_int();
  ASSUME(ra >= 0 && ra <= 31 && rb >= 0 && rb <= 31);
  g_pos = 0; g_len = 0; g_errors = 0; g_nwords = 0; g_word = 0;
  unsigned want = 0; int fits = 0; unsigned u = (unsigned)g_N;
#if FORM == 1
  reg(ra); comma(); num(); tk(TOKEN_SYMBOL, '(', 0, 0); reg(rb); tk(TOKEN_SYMBOL, ')', 0, 0);
  fits = g_N >= -2048 && g_N <= 2047;
  want = ((u & 0xfff) << 20) | ((unsigned)rb << 15) | ((unsigned)F3 << 12) | ((unsigned)ra << 7) | 0x03;
#elif FORM == 2
  reg(ra); comma(); num(); tk(TOKEN_SYMBOL, '(', 0, 0); reg(rb); tk(TOKEN_SYMBOL, ')', 0, 0);
  fits = g_N >= -2048 && g_N <= 2047;
  want = (((u >> 5) & 0x7f) << 25) | ((unsigned)ra << 20) | ((unsigned)rb << 15) | ((unsigned)F3 << 12) | ((u & 0x1f) << 7) | 0x23;
#elif FORM == 3
  reg(ra); comma(); reg(rb); comma(); num();
  /* input class of the listed finding: the assembler also accepts 2048..4095 (an unsigned 12-bit spelling) and encodes it as N - 4096 */
#ifdef UIMM12_ONLY
  ASSUME(g_N >= 2048 && g_N <= 4095);
#else
  ASSUME(!(g_N >= 2048 && g_N <= 4095));
#endif
  fits = g_N >= -2048 && g_N <= 2047;
  want = ((u & 0xfff) << 20) | ((unsigned)rb << 15) | ((unsigned)F3 << 12) | ((unsigned)ra << 7) | 0x13;
#elif FORM == 4
  reg(ra); comma(); reg(rb); comma(); num();
  { int off = g_N - addr0; unsigned o = (unsigned)off;
    ASSUME(g_N >= 0 && g_N < (1 << 30));
    fits = off >= -4096 && off <= 4094 && (off & 1) == 0;
    want = (bit(o, 12) << 31) | (((o >> 5) & 0x3f) << 25) | ((unsigned)rb << 20) | ((unsigned)ra << 15) | ((unsigned)F3 << 12) | (((o >> 1) & 0xf) << 8) | (bit(o, 11) << 7) | 0x63; }
#elif FORM == 5
  reg(ra); comma(); num();
  { int off = g_N - addr0; unsigned o = (unsigned)off;
    ASSUME(g_N >= 0 && g_N < (1 << 30));
    fits = off >= -1048576 && off <= 1048574 && (off & 1) == 0;
    want = (bit(o, 20) << 31) | (((o >> 1) & 0x3ff) << 21) | (bit(o, 11) << 20) | (((o >> 12) & 0xff) << 12) | ((unsigned)ra << 7) | 0x6f; }
#elif FORM == 6
  /* R-type "<mnem> rd, rs1, rs2": funct7 rs2 rs1 f3 rd 0110011 */
  { int rc = nondet_int(); ASSUME(rc >= 0 && rc <= 31);
    reg(ra); comma(); reg(rb); comma(); reg(rc);
    fits = 1;
    want = ((unsigned)F7 << 25) | ((unsigned)rc << 20) | ((unsigned)rb << 15) | ((unsigned)F3 << 12) | ((unsigned)ra << 7) | 0x33; }
#elif FORM == 7
  /* shift by immediate "<mnem> rd, rs1, N" (RV32I: shamt 0..31): funct7 shamt rs1 f3 rd 0010011 */
  reg(ra); comma(); reg(rb); comma(); num();
  fits = g_N >= 0 && g_N <= 31;
  want = ((unsigned)F7 << 25) | ((u & 0x1f) << 20) | ((unsigned)rb << 15) | ((unsigned)F3 << 12) | ((unsigned)ra << 7) | 0x13;
#endif
  tk(TOKEN_EOL, '\n', 0, 0);
  char instr[TOKENLEN] = VXSTR(MNEM);
  int r = parse_instruction_riscv(&ctx, instr);
  if (fits)
  {
    OBL(r >= 0 && g_nwords == 1, "C01.rv: a representable operand is accepted and exactly one 32-bit word is emitted");
    if (r >= 0) OBL(g_word == want, "C01.rv: the emitted word is the manual's encoding");
  }
  else
  {
    OBL(r == -1 && g_nwords == 0, "C06.rv: an operand that does not fit the immediate field is rejected and nothing is emitted");
    OBL(r != -1 || g_errors > 0, "C06.rv: a rejected operand produces a diagnostic");
  }
  CANARY("h_riscv_form end");
}
