/* C01 — RV32I control-transfer immediates: contracts of permutate_branch / permutate_jal of the assembler (asm/riscv.cpp,
 * offset -> instruction bits) and of the disassembler (disasm/riscv.cpp, instruction word -> offset); the four static
 * functions are extracted verbatim.  Spec functions from "The RISC-V Instruction Set Manual, Volume I", B-type and J-type:
 *   B: inst[31]=imm[12] inst[30:25]=imm[10:5] inst[11:8]=imm[4:1] inst[7]=imm[11]
 *   J: inst[31]=imm[20] inst[30:21]=imm[10:1] inst[20]=imm[11] inst[19:12]=imm[19:12]
 * POST (all 2^32 inputs, loop-free):
 *   encoder: for every even offset in the field's range the bits are the manual's; nothing outside the immediate field is set;
 *   decoder: for every instruction word the offset is the manual's sign-extended immediate and does not depend on the other fields;
 *   fixpoint: decode(encode(x) | any other fields) == x for every representable x.
 */
#include <stdint.h>
#include "vh.h"
namespace rvasm {
#include "gen/riscv_asm_permutate_branch.inc"
#include "gen/riscv_asm_permutate_jal.inc"
}
namespace rvdis {
#include "gen/riscv_dis_permutate_branch.inc"
#include "gen/riscv_dis_permutate_jal.inc"
}
static uint32_t bit(uint32_t v, int n) { return (v >> n) & 1u; }
static uint32_t spec_enc_b(int32_t x)
{
  uint32_t u = (uint32_t)x;
  return (bit(u, 12) << 31) | (((u >> 5) & 0x3f) << 25) | (((u >> 1) & 0xf) << 8) | (bit(u, 11) << 7);
}
static int32_t spec_dec_b(uint32_t w)
{
  uint32_t u = (bit(w, 31) << 12) | (((w >> 25) & 0x3f) << 5) | (((w >> 8) & 0xf) << 1) | (bit(w, 7) << 11);
  return (int32_t)(bit(w, 31) ? (u | 0xffffe000u) : u);
}
static uint32_t spec_enc_j(int32_t x)
{
  uint32_t u = (uint32_t)x;
  return (bit(u, 20) << 31) | (((u >> 1) & 0x3ff) << 21) | (bit(u, 11) << 20) | (((u >> 12) & 0xff) << 12);
}
static int32_t spec_dec_j(uint32_t w)
{
  uint32_t u = (bit(w, 31) << 20) | (((w >> 21) & 0x3ff) << 1) | (bit(w, 20) << 11) | (((w >> 12) & 0xff) << 12);
  return (int32_t)(bit(w, 31) ? (u | 0xfff00000u) : u);
}
extern "C" void h_riscv_imm()
{
  int32_t x = nondet_int(); uint32_t w = nondet_uint(), other = nondet_uint();
  if (x >= -4096 && x <= 4094 && (x & 1) == 0)
  {
    uint32_t e = rvasm::permutate_branch(x);
    OBL(e == spec_enc_b(x), "C01.rv: B-type immediate bits are the manual's for every representable branch offset");
    OBL((e & ~0xfe000f80u) == 0, "C01.rv: the B-type encoder sets no bit outside the immediate field");
    OBL(rvdis::permutate_branch(e | (other & ~0xfe000f80u)) == x, "C01.rv: decoding an encoded branch offset gives the offset back, whatever the other fields are");
  }
  if (x >= -1048576 && x <= 1048574 && (x & 1) == 0)
  {
    uint32_t e = rvasm::permutate_jal(x);
    OBL(e == spec_enc_j(x), "C01.rv: J-type immediate bits are the manual's for every representable jump offset");
    OBL((e & ~0xfffff000u) == 0, "C01.rv: the J-type encoder sets no bit outside the immediate field");
    OBL(rvdis::permutate_jal(e | (other & ~0xfffff000u)) == x, "C01.rv: decoding an encoded jump offset gives the offset back, whatever the other fields are");
  }
  OBL(rvdis::permutate_branch(w) == spec_dec_b(w), "C01.rv: the decoded branch offset is the manual's sign-extended B-type immediate for every instruction word");
  OBL(rvdis::permutate_jal(w) == spec_dec_j(w), "C01.rv: the decoded jump offset is the manual's sign-extended J-type immediate for every instruction word");
  CANARY("h_riscv_imm end");
}
