/* C04 — contracts of the literal converters tokens_hex_string_to_int, tokens_binary_string_to_int,
 * tokens_octal_string_to_int (static, core/tokens.cpp): for every digit string of at most LITLEN
 * characters (complete for 64-bit values: 64 binary digits + separators) the result is the
 * positional value modulo 2^64, '_' is a separator, anything else is rejected.
 * Loops are closed by unwinding with unwinding assertions (bound = LITLEN + 2, complete for the stated width).
 */
#include "stub_ctx.h"
#include "core/Macros.h"
#include "core/tokens.h"
int macros_get_char(AsmContext *) { return -1; }
char *macros_lookup(Macros *, char *, int *) { return 0; }
int macros_push_define(Macros *, char *) { return 0; }
char *macros_expand_params(AsmContext *, char *, int) { return 0; }
int Symbols::lookup(const char *, uint32_t *) { return -1; }
#include "core/tokens.cpp"

#ifndef LITLEN
#define LITLEN 66
#endif
typedef unsigned long long u64;

static int digit_of(char c, int base)
{
  int d = -1;
  if (c >= '0' && c <= '9') d = c - '0';
  else if (c >= 'a' && c <= 'f') d = c - 'a' + 10;
  else if (c >= 'A' && c <= 'F') d = c - 'A' + 10;
  if (d >= base) d = -1;
  return d;
}

extern "C" void h_literal()
{
  char s[LITLEN + 2];
  for (int i = 0; i < LITLEN + 1; i++) s[i] = nondet_char();
  s[LITLEN + 1] = 0;
  int len = nondet_int();
  ASSUME(len >= 0 && len <= LITLEN);
  s[len] = 0;                         /* arbitrary string of 0..LITLEN characters */
  const int base = BASE;              /* 16, 2 or 8 */
  const int bits = base == 16 ? 4 : base == 2 ? 1 : 3;
  const char t1 = base == 16 ? 'h' : base == 2 ? 'b' : 'q';
  const char t2 = base == 16 ? 'H' : base == 2 ? 'B' : 'Q';
  bool prefixed = nondet_int() & 1;
  /* specification */
  u64 want = 0; int bad = 0; int stop = 0; int suffix = 0;
  for (int i = 0; i < LITLEN + 1; i++)
  {
    if (!stop && !bad)
    {
      char c = s[i];
      if (c == 0) stop = 1;
      else if (c == t1 || c == t2) { stop = 1; suffix = 1; }
      else if (c == '_') { }
      else { int d = digit_of(c, base); if (d < 0) bad = 1; else want = (want << bits) | (u64)d; }
    }
  }
  u64 got = 0x5555;
  int r;
#if BASE == 16
  r = tokens_hex_string_to_int(s, &got, prefixed);
  if (suffix && prefixed && !bad) bad = 1;
#elif BASE == 2
  r = tokens_binary_string_to_int(s, &got, prefixed);
  if (suffix && prefixed && !bad) bad = 1;
#else
  r = tokens_octal_string_to_int(s, &got);
#endif
  OBL(r == 0 || r == -1, "C04.lit: result code is 0 or -1");
  OBL((r == -1) == (bad != 0), "C04.lit: rejected exactly when a character is not a digit of the base or a separator");
  if (r == 0) OBL(got == want, "C04.lit: value is the positional value of the digits modulo 2^64");
  CANARY("h_literal end");
}
