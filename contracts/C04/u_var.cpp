/* C04 — contracts of the integer operations of Var (core/Var.cpp, core/Var.h) and of
 * Operator::set_operator / Operator::execute (core/Operator.cpp): loop-free, all 2^64 x 2^64 operands.
 *
 * POST each operation returns 0 and stores the 64-bit two's-complement result;
 *      div/mod by zero return non-zero WITHOUT executing the machine division
 *      (obligation = CBMC's division-by-zero check on the real statement), INT64_MIN / -1 does not trap;
 *      shifts are specified for counts 0..63 (C++ leaves larger counts undefined; stated).
 * Machine arithmetic: + - * wrap (CBMC bit-vector semantics == what g++ emits on the supported targets; stated assumption).
 */
#include "vh.h"
#include <stdio.h>
#include <stdlib.h>
#include "core/Var.h"
#include "core/Operator.h"
#include "core/Var.cpp"
#include "core/Operator.cpp"

typedef unsigned long long u64;
typedef long long i64;

extern "C" void h_var_binop()
{
  i64 a = nondet_ll(), b = nondet_ll();
  Var d, s, out;
  d.set_int((u64)a); s.set_int((u64)b);
  OBL(d.get_type() == VAR_INT && d.get_int64() == a, "C04.var: set_int stores the value as an integer");
  int r;
  r = out.add(d, s);          OBL(r == 0 && out.get_int64() == (i64)((u64)a + (u64)b), "C04.var: add is 64-bit two's-complement addition");
  r = out.sub(d, s);          OBL(r == 0 && out.get_int64() == (i64)((u64)a - (u64)b), "C04.var: sub is 64-bit two's-complement subtraction");
  r = out.logical_and(d, s);  OBL(r == 0 && out.get_int64() == (a & b), "C04.var: and");
  r = out.logical_or(d, s);   OBL(r == 0 && out.get_int64() == (a | b), "C04.var: or");
  r = out.logical_xor(d, s);  OBL(r == 0 && out.get_int64() == (a ^ b), "C04.var: xor");
  if (b >= 0 && b < 64)
  {
    r = out.shift_left(d, s);  OBL(r == 0 && out.get_int64() == (i64)((u64)a << b), "C04.var: shift left by 0..63");
    r = out.shift_right(d, s); OBL(r == 0 && (a >= 0 ? out.get_int64() == (i64)((u64)a >> b) : out.get_int64() == (i64)~((~(u64)a) >> b)), "C04.var: shift right by 0..63 is arithmetic");
  }
  Var n; n.set_int((u64)a); n.negative();   OBL(n.get_int64() == (i64)(0 - (u64)a), "C04.var: unary minus is two's-complement negation");
  Var c; c.set_int((u64)a); c.complement(); OBL(c.get_int64() == ~a, "C04.var: ~ is bitwise complement");
  OBL(d.get_int64() == a && s.get_int64() == b, "C04.var: operands are not modified");
  OBL(d.get_bin64() == (u64)a && d.get_bin32() == (unsigned)((u64)a & 0xffffffffu) && d.get_int32() == (int)(i64)a, "C04.var: 32/64-bit views are the low bits of the value");
  CANARY("h_var_binop end");
}

/* division and modulo: the zero / overflow guard is full-domain; the quotient itself is
   checked for divisors of magnitude < 2^7 (64-bit symbolic division does not scale; stated) */
extern "C" void h_var_divmod()
{
  i64 a = nondet_ll(), b = nondet_ll();
#ifdef SMALLDIV
  ASSUME(b > -128 && b < 128 && a > -(1LL << 20) && a < (1LL << 20));   /* the value group: stated operand bound; the guard group above is full-domain */
#endif
  Var d, s, q, m;
  d.set_int((u64)a); s.set_int((u64)b);
  int rq = q.div(d, s);
  int rm = m.mod(d, s);
  if (b == 0)
  {
    OBL(rq != 0 && rm != 0, "C04.var: division and modulo by zero have no value (non-zero return)");
  }
  else
  {
    OBL(rq == 0 && rm == 0, "C04.var: division and modulo by a non-zero value succeed");
    if (b == -1)
    {
      OBL(q.get_int64() == (i64)(0 - (u64)a) && m.get_int64() == 0, "C04.var: division by -1 is negation (INT64_MIN wraps), remainder 0");
    }
#ifdef SMALLDIV
    else if (b > -128 && b < 128 && a > -(1LL << 20) && a < (1LL << 20))
    {
      i64 qq = q.get_int64(), mm = m.get_int64();
      OBL(qq > -(1LL << 21) && qq < (1LL << 21) && (int)qq * (int)b + (int)mm == (int)a && (mm == 0 || ((mm < 0) == (a < 0))) && (mm < 0 ? -mm : mm) < (b < 0 ? -b : b), "C04.var: quotient and remainder satisfy the C truncating-division identity");
    }
#endif
  }
  CANARY("h_var_divmod end");
}

/* a * b as syntactic identity with the machine product; value check for small operands */
extern "C" void h_var_mul()
{
  i64 a = nondet_ll(), b = nondet_ll();
  Var d, s, out;
  d.set_int((u64)a); s.set_int((u64)b);
  int r = out.mul(d, s);
  OBL(r == 0, "C04.var: mul succeeds");
#ifdef SMALLMUL
  ASSUME(b >= -16 && b <= 16);
  OBL(out.get_int64() == (i64)((u64)a * (u64)b), "C04.var: mul is the 64-bit wrapping product");
#else
  OBL(out.get_int64() == a * b, "C04.var: mul is the machine product of its operands (syntactic identity)");
#endif
  CANARY("h_var_mul end");
}

extern "C" void h_set_operator()
{
  char t[4];
  t[0] = nondet_char(); t[1] = nondet_char(); t[2] = nondet_char(); t[3] = 0;
  Operator o;
  bool ok = o.set_operator(t);
  int want_op = 0, want_prec = -1;
  if (t[0] != 0 && t[1] == 0)
  {
    switch (t[0])
    {
      case '*': want_op = Operator::OPER_MUL; want_prec = 0; break;
      case '/': want_op = Operator::OPER_DIV; want_prec = 0; break;
      case '%': want_op = Operator::OPER_MOD; want_prec = 0; break;
      case '+': want_op = Operator::OPER_PLUS; want_prec = 1; break;
      case '-': want_op = Operator::OPER_MINUS; want_prec = 1; break;
      case '&': want_op = Operator::OPER_AND; want_prec = 3; break;
      case '^': want_op = Operator::OPER_XOR; want_prec = 4; break;
      case '|': want_op = Operator::OPER_OR; want_prec = 5; break;
    }
  }
  else if (t[0] == '<' && t[1] == '<' && t[2] == 0) { want_op = Operator::OPER_SHIFT_L; want_prec = 2; }
  else if (t[0] == '>' && t[1] == '>' && t[2] == 0) { want_op = Operator::OPER_SHIFT_R; want_prec = 2; }
  if (t[0] != 0)
  {
    OBL(ok == (want_prec >= 0), "C04.oper: exactly the ten binary operator spellings are accepted");
    if (ok)
    {
      OBL(o.operation == want_op, "C04.oper: spelling maps to its operation");
      /* documented precedence classes: * / %  <  + -  <  << >>  <  &  <  ^  <  |  (smaller binds tighter) */
      int cls = o.precedence == Operator::PREC_MUL ? 0 : o.precedence == Operator::PREC_ADD ? 1 : o.precedence == Operator::PREC_SHIFT ? 2 :
                o.precedence == Operator::PREC_AND ? 3 : o.precedence == Operator::PREC_XOR ? 4 : o.precedence == Operator::PREC_OR ? 5 : -1;
      OBL(cls == want_prec, "C04.oper: operator is in its documented precedence class");
    }
  }
  OBL(Operator::PREC_MUL < Operator::PREC_ADD && Operator::PREC_ADD < Operator::PREC_SHIFT && Operator::PREC_SHIFT < Operator::PREC_AND &&
      Operator::PREC_AND < Operator::PREC_XOR && Operator::PREC_XOR < Operator::PREC_OR, "C04.oper: classes are ordered * / % , + - , << >> , & , ^ , |");
  CANARY("h_set_operator end");
}

extern "C" void h_execute()
{
  i64 a = nondet_ll(), b = nondet_ll();
  int op = nondet_int();
  ASSUME(op >= Operator::OPER_PLUS && op <= Operator::OPER_OR);   /* mul/div/mod: see h_var_mul / h_var_divmod */
  ASSUME(!(op == Operator::OPER_SHIFT_L || op == Operator::OPER_SHIFT_R) || (b >= 0 && b < 64));
  Operator o; o.operation = op; o.precedence = 0;
  Var d, s; d.set_int((u64)a); s.set_int((u64)b);
  int r = o.execute(d, s);
  i64 want = op == Operator::OPER_PLUS ? (i64)((u64)a + (u64)b) : op == Operator::OPER_MINUS ? (i64)((u64)a - (u64)b) :
             op == Operator::OPER_SHIFT_L ? (i64)((u64)a << (b & 63)) : op == Operator::OPER_SHIFT_R ? (a >= 0 ? (i64)((u64)a >> (b & 63)) : (i64)~((~(u64)a) >> (b & 63))) :
             op == Operator::OPER_AND ? (a & b) : op == Operator::OPER_XOR ? (a ^ b) : (a | b);
  OBL(r == 0 && d.get_int64() == want, "C04.oper: execute applies the operation to (left, right) and leaves the result in the left operand");
  i64 sm = nondet_ll(); ASSUME(sm >= -16 && sm <= 16);
  Operator om; om.operation = Operator::OPER_MUL; Var d2, s2; d2.set_int((u64)a); s2.set_int((u64)sm);
  OBL(om.execute(d2, s2) == 0 && d2.get_int64() == (i64)((u64)a * (u64)sm), "C04.oper: execute(*) is the wrapping product (right operand of magnitude <= 16)");
  Operator od; od.operation = Operator::OPER_DIV; Var d3, s3; d3.set_int((u64)a); s3.set_int(0);
  OBL(od.execute(d3, s3) != 0, "C04.oper: execute(/) by zero reports no value");
  Operator omo; omo.operation = Operator::OPER_MOD; Var d4, s4; d4.set_int((u64)a); s4.set_int(0);
  OBL(omo.execute(d4, s4) != 0, "C04.oper: execute(%) by zero reports no value");
  CANARY("h_execute end");
}
