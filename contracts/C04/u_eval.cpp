/* C04 — contract of EvalExpression::run / execute_stack / parse_unary_new and eval_expression()
 * (core/eval_expression.cpp, core/eval_expression.h) against a reference evaluator written from
 * the property statement: unary - and ~ bind tightest, then * / %, + -, << >>, &, ^, |,
 * left-to-right within a class, parentheses first; division/modulo by zero has no value.
 *
 * tokens_get/tokens_push are replaced by a token-script contract (one token per call in order,
 * push-back returns the same token); atoll() returns the value attached to the current number
 * token, so operand VALUES are symbolic 63-bit numbers while token KINDS are concrete per run.
 * Operators of one precedence class are chosen symbolically inside the run.
 */
#include "stub_ctx.h"
#include "core/eval_expression.h"

extern "C" {
int g_type[24]; char g_c0[24]; char g_c1[24]; long long g_val[24]; int g_len; int g_pos; long long g_cur;
}

int tokens_get(AsmContext *asm_context, char *token, int len)
{
  if (g_pos >= g_len) { token[0] = 0; return TOKEN_EOF; }
  token[0] = g_c0[g_pos]; token[1] = g_c1[g_pos]; token[2] = 0;
  g_cur = g_val[g_pos];
  return g_type[g_pos++];
}
void tokens_push(AsmContext *asm_context, const char *token, int token_type)
{
  OBL(g_pos > 0, "C04.eval: push-back only after a read");
  if (token_type != TOKEN_EOF) { g_pos--; }
}
int tokens_escape_char(AsmContext *asm_context, uint8_t *s) { return 0; }
extern "C" long long atoll(const char *s) { return g_cur; }
extern "C" double atof(const char *s) { return 0.0; }
extern "C" int printf(const char *fmt, ...) { g_errors++; return 0; }
extern "C" int snprintf(char *s, size_t n, const char *fmt, ...) { s[0] = '0'; s[1] = 0; return 1; }

#include "core/eval_expression.cpp"
#include "core/Operator.cpp"
#include "core/Var.cpp"

typedef long long i64;
typedef unsigned long long u64;

static void tok(int type, const char *s, i64 v)
{
  g_c0[g_len] = s[0]; g_c1[g_len] = s[0] ? s[1] : 0; g_type[g_len] = type; g_val[g_len] = v; g_len++;
}
/* operators: 0 * 1 / 2 % | 3 + 4 - | 5 << 6 >> | 7 & | 8 ^ | 9 | */
static const char *opstr(int o)
{
  switch (o) { case 0: return "*"; case 1: return "/"; case 2: return "%"; case 3: return "+"; case 4: return "-";
               case 5: return "<<"; case 6: return ">>"; case 7: return "&"; case 8: return "^"; default: return "|"; }
}
static int cls_of(int o) { return o <= 2 ? 0 : o <= 4 ? 1 : o <= 6 ? 2 : o == 7 ? 3 : o == 8 ? 4 : 5; }
static int apply(int o, i64 a, i64 b, i64 *r)
{
  switch (o)
  {
    case 0: *r = (i64)((u64)a * (u64)b); return 1;
    case 1: if (b == 0) return 0; if (b == -1) { *r = (i64)(0 - (u64)a); return 1; } *r = a / b; return 1;
    case 2: if (b == 0) return 0; if (b == -1) { *r = 0; return 1; } *r = a % b; return 1;
    case 3: *r = (i64)((u64)a + (u64)b); return 1;
    case 4: *r = (i64)((u64)a - (u64)b); return 1;
    case 5: if (b < 0 || b > 63) g_undef = 1; *r = (i64)((u64)a << (b & 63)); return 1;
    case 6: if (b < 0 || b > 63) g_undef = 1; *r = a >= 0 ? (i64)((u64)a >> (b & 63)) : (i64)~((~(u64)a) >> (b & 63)); return 1;
    case 7: *r = a & b; return 1;
    case 8: *r = a ^ b; return 1;
    default: *r = a | b; return 1;
  }
}
/* operand restrictions that keep the arithmetic decidable (stated in evidence):
   * / % on operands 0..15; shift counts 0..63 */
static void restrict_operands(int o, i64 a, i64 b)
{
  if (o <= 2) ASSUME(a >= 0 && a < 16 && b >= 0 && b < 16);
  if (o == 5 || o == 6) ASSUME(b >= 0 && b < 64);
}

#ifndef NOPS
#define NOPS 1
#endif
#ifndef O0
#define O0 0
#endif
#ifndef O1
#define O1 0
#endif
#ifndef O2
#define O2 0
#endif
extern "C" { int g_undef; }

/* reference: repeatedly reduce the leftmost operator of the tightest class */
static int reference(int n, i64 *rv, int *ro, i64 *out)
{
  int ok = 1;
  for (int step = 0; step < NOPS; step++)
  {
    if (step < n)
    {
      int m = n - step;      /* operators left */
      int best = 0;
      for (int i = 1; i < NOPS; i++) if (i < m && cls_of(ro[i]) < cls_of(ro[best])) best = i;
      i64 r = 0;
      if (!apply(ro[best], rv[best], rv[best + 1], &r)) ok = 0;
      rv[best] = r;
      for (int i = best; i < NOPS - 1; i++) { ro[i] = ro[i + 1]; rv[i + 1] = rv[i + 2]; }
    }
  }
  *out = rv[0];
  return ok;
}

/* a0 op0 a1 op1 a2 ... : flat sequence of NOPS binary operators */
extern "C" void h_eval_seq()
{
  AsmContext ctx; ctx.pass = 2; ctx.tokens.filename = "x.asm"; ctx.tokens.line = 1;
  i64 v[NOPS + 2]; int o[NOPS + 1];
  g_len = 0; g_pos = 0; g_errors = 0;
  for (int i = 0; i <= NOPS; i++) { v[i] = nondet_ll(); ASSUME(v[i] >= 0); }
  const int ops[3] = { O0, O1, O2 };
  for (int i = 0; i < NOPS; i++) o[i] = ops[i];
  g_undef = 0;
  /* operand restrictions apply to the values an operator can see: its literal neighbours and
     (conservatively) every literal when a restricted operator is present */
  for (int i = 0; i < NOPS; i++)
  {
    if (o[i] <= 2) { for (int k = 0; k <= NOPS; k++) ASSUME(v[k] < 16); }
    if (o[i] == 5 || o[i] == 6) ASSUME(v[i + 1] < 64);
  }
  for (int i = 0; i <= NOPS; i++) { tok(TOKEN_NUMBER, "1", v[i]); if (i < NOPS) tok(TOKEN_SYMBOL, opstr(o[i]), 0); }
  tok(TOKEN_EOL, "\n", 0);
  i64 rv[NOPS + 2]; int ro[NOPS + 1];
  for (int i = 0; i <= NOPS; i++) rv[i] = v[i];
  for (int i = 0; i < NOPS; i++) ro[i] = o[i];
  i64 want = 0;
  int has_value = reference(NOPS, rv, ro, &want);
  ASSUME(!g_undef);   /* shift counts outside 0..63 are undefined in C++ and outside the statement */
  /* a shift whose right operand is itself a computed value must stay within 0..63 for the reference */
  Var answer;
  int r = eval_expression(&ctx, answer);
  if (has_value)
  {
    OBL(r == 0, "C04.eval: well-formed expression with a value is accepted");
    if (r == 0) OBL(answer.get_int64() == want, "C04.eval: value equals the precedence- and associativity-respecting evaluation");
  }
  else
  {
    OBL(r != 0, "C04.eval: expression dividing by zero is rejected");
  }
  OBL(g_pos == g_len - 1 || r != 0, "C04.eval: the whole expression and nothing after it is consumed");
  CANARY("h_eval_seq end");
}

/* unary operators, one level of parentheses, malformed input.  SHAPE selects the token script. */
#ifndef SHAPE
#define SHAPE 1
#endif
extern "C" void h_eval_shape()
{
  AsmContext ctx; ctx.pass = 2; ctx.tokens.filename = "x.asm"; ctx.tokens.line = 1;
  g_len = 0; g_pos = 0; g_errors = 0; g_undef = 0;
  i64 a = nondet_ll(), b = nondet_ll(), c = nondet_ll();
  ASSUME(a >= 0 && b >= 0 && c >= 0);
  const int o0 = O0, o1 = O1;
  i64 want = 0, t = 0; int has_value = 1; int well_formed = 1;
#if SHAPE == 1          /* - a */
  tok(TOKEN_SYMBOL, "-", 0); tok(TOKEN_NUMBER, "1", a); want = (i64)(0 - (u64)a);
#elif SHAPE == 2        /* ~ a */
  tok(TOKEN_SYMBOL, "~", 0); tok(TOKEN_NUMBER, "1", a); want = ~a;
#elif SHAPE == 3        /* a O0 - b */
  restrict_operands(o0, a, b);
  tok(TOKEN_NUMBER, "1", a); tok(TOKEN_SYMBOL, opstr(o0), 0); tok(TOKEN_SYMBOL, "-", 0); tok(TOKEN_NUMBER, "1", b);
  if (o0 == 5 || o0 == 6) ASSUME(b == 0);
  has_value = apply(o0, a, (i64)(0 - (u64)b), &want);
#elif SHAPE == 4        /* - ( a O0 b ) */
  restrict_operands(o0, a, b);
  tok(TOKEN_SYMBOL, "-", 0); tok(TOKEN_SYMBOL, "(", 0); tok(TOKEN_NUMBER, "1", a); tok(TOKEN_SYMBOL, opstr(o0), 0); tok(TOKEN_NUMBER, "1", b); tok(TOKEN_SYMBOL, ")", 0);
  has_value = apply(o0, a, b, &t); want = (i64)(0 - (u64)t);
#elif SHAPE == 5        /* ( a O0 b ) O1 c */
  restrict_operands(o0, a, b); if (o1 <= 2) ASSUME(c < 16 && a < 4 && b < 4 && o0 != 5); if (o1 == 5 || o1 == 6) ASSUME(c < 64);
  tok(TOKEN_SYMBOL, "(", 0); tok(TOKEN_NUMBER, "1", a); tok(TOKEN_SYMBOL, opstr(o0), 0); tok(TOKEN_NUMBER, "1", b); tok(TOKEN_SYMBOL, ")", 0); tok(TOKEN_SYMBOL, opstr(o1), 0); tok(TOKEN_NUMBER, "1", c);
  has_value = apply(o0, a, b, &t); if (has_value) has_value = apply(o1, t, c, &want);
#elif SHAPE == 6        /* a O0 ( b O1 c ) */
  restrict_operands(o1, b, c); if (o0 <= 2) ASSUME(a < 16 && b < 4 && c < 4 && o1 != 5);
  tok(TOKEN_NUMBER, "1", a); tok(TOKEN_SYMBOL, opstr(o0), 0); tok(TOKEN_SYMBOL, "(", 0); tok(TOKEN_NUMBER, "1", b); tok(TOKEN_SYMBOL, opstr(o1), 0); tok(TOKEN_NUMBER, "1", c); tok(TOKEN_SYMBOL, ")", 0);
  has_value = apply(o1, b, c, &t); if (has_value) has_value = apply(o0, a, t, &want);
#elif SHAPE == 7        /* - ~ a */
  tok(TOKEN_SYMBOL, "-", 0); tok(TOKEN_SYMBOL, "~", 0); tok(TOKEN_NUMBER, "1", a); want = (i64)(0 - (u64)(~a));
#elif SHAPE == 8        /* ~ - a O0 b   (unary binds tighter than any binary operator) */
  restrict_operands(o0, a, b); if (o0 <= 2) ASSUME(a == 0);
  tok(TOKEN_SYMBOL, "~", 0); tok(TOKEN_SYMBOL, "-", 0); tok(TOKEN_NUMBER, "1", a); tok(TOKEN_SYMBOL, opstr(o0), 0); tok(TOKEN_NUMBER, "1", b);
  has_value = apply(o0, ~(i64)(0 - (u64)a), b, &want);
#elif SHAPE == 20       /* a b */
  well_formed = 0; tok(TOKEN_NUMBER, "1", a); tok(TOKEN_NUMBER, "1", b);
#elif SHAPE == 21       /* O0 a   (binary operator first; + and - are unary there) */
  well_formed = (o0 == 3 || o0 == 4); tok(TOKEN_SYMBOL, opstr(o0), 0); tok(TOKEN_NUMBER, "1", a); want = (o0 == 4) ? (i64)(0 - (u64)a) : a;
#elif SHAPE == 22       /* a O0 */
  well_formed = 0; tok(TOKEN_NUMBER, "1", a); tok(TOKEN_SYMBOL, opstr(o0), 0);
#elif SHAPE == 23       /* ( a */
  well_formed = 0; tok(TOKEN_SYMBOL, "(", 0); tok(TOKEN_NUMBER, "1", a);
#elif SHAPE == 24       /* a O0 O1 b  (second operator not unary) */
  well_formed = (o1 == 4); tok(TOKEN_NUMBER, "1", a); tok(TOKEN_SYMBOL, opstr(o0), 0); tok(TOKEN_SYMBOL, opstr(o1), 0); tok(TOKEN_NUMBER, "1", b);
  restrict_operands(o0, a, b); if (o0 == 5 || o0 == 6) ASSUME(b == 0);
  has_value = apply(o0, a, (i64)(0 - (u64)b), &want);
#elif SHAPE == 25       /* - */
  well_formed = 0; tok(TOKEN_SYMBOL, "-", 0);
#elif SHAPE == 26       /* a O0 ( b   */
  well_formed = 0; tok(TOKEN_NUMBER, "1", a); tok(TOKEN_SYMBOL, opstr(o0), 0); tok(TOKEN_SYMBOL, "(", 0); tok(TOKEN_NUMBER, "1", b);
#elif SHAPE == 27       /* ( ) */
  well_formed = 0; tok(TOKEN_SYMBOL, "(", 0); tok(TOKEN_SYMBOL, ")", 0);
#endif
  tok(TOKEN_EOL, "\n", 0);
  ASSUME(!g_undef);
  Var answer;
  int r = eval_expression(&ctx, answer);
  if (!well_formed)
  {
    OBL(r != 0, "C04.eval: malformed expression is rejected");
  }
  else if (has_value)
  {
    OBL(r == 0, "C04.eval: well-formed expression with a value is accepted");
    if (r == 0) OBL(answer.get_int64() == want, "C04.eval: value equals the reference evaluation (unary operators and parentheses)");
  }
  else
  {
    OBL(r != 0, "C04.eval: expression dividing by zero is rejected");
  }
  CANARY("h_eval_shape end");
}
