/* C10/C12 — contracts of parse_if, parse_ifdef, parse_ifdef_ignore (core/directives_if.cpp).
 *
 * Callees replaced by contracts: eval_ifdef_expression (arbitrary value or -1), macros_lookup and
 * Symbols::find (arbitrary defined/undefined), AsmContext::assemble (arbitrary status 0, 2, 3, -1;
 * ghost event order).  The real ifdef_ignore runs on a stream that is directly at the terminator
 * (.endif, .else or end of input, chosen symbolically), so its three outcomes are all reachable.
 *
 * POST condition true  => assemble() runs first; the skip runs iff it returned 2 (.else reached)
 *      condition false => the skip runs first; assemble() runs iff the skip stopped at .else
 *      the block must end at its own .endif: assemble() == 4 / ifdef_ignore() == 0; anything else (error,
 *      end of input, .endr, a second .else) is returned as -1
 *      ifdef_count is restored; parsing_ifdef is reset
 */
#include "stub_ctx.h"
#include "core/tokens.h"
#include "core/Macros.h"

extern "C" {
int g_ntok, g_clock, g_asm_calls, g_asm_time, g_asm_ret, g_first_tok_time, g_stream, g_expr, g_defined_macro, g_defined_sym, g_parsing_seen;
int g_name_type;
}

#define P1(k) if (!done) { t[k] = s[k]; if (s[k] == 0) done = 1; }
static void put(char *t, const char *s) { int done = 0; P1(0) P1(1) P1(2) P1(3) P1(4) P1(5) P1(6) P1(7) }
static int lc(int c) { return (c >= 'A' && c <= 'Z') ? c + 32 : c; }
#define C1(k) if (r == 0 && !end) { int x = lc((unsigned char)a[k]), y = lc((unsigned char)b[k]); if (x != y) r = x - y; else if (x == 0) end = 1; }
extern "C" int strcasecmp(const char *a, const char *b)
{
  int r = 0, end = 0;
  C1(0) C1(1) C1(2) C1(3) C1(4) C1(5) C1(6) C1(7)
  return r;
}

static int g_name_pending;
int tokens_get(AsmContext *asm_context, char *token, int len)
{
  if (g_name_pending)           /* the symbol name read by parse_ifdef */
  {
    g_name_pending = 0;
    g_parsing_seen = asm_context->parsing_ifdef;
    put(token, "FOO");
    return g_name_type;
  }
  if (g_first_tok_time == 0) g_first_tok_time = ++g_clock;
  g_ntok++;
  if (g_stream == 0) { token[0] = 0; return TOKEN_EOF; }
  if ((g_ntok & 1) == 1) { put(token, "."); return TOKEN_SYMBOL; }
  if (g_stream == 1) put(token, "endif"); else put(token, "else");
  return TOKEN_STRING;
}
int eval_ifdef_expression(AsmContext *asm_context) { g_parsing_seen = asm_context->parsing_ifdef; return g_expr; }
static char g_macro_value[2];
char *macros_lookup(Macros *macros, char *name, int *param_count) { return g_defined_macro ? &g_macro_value[0] : 0; }
Symbols::Entry *Symbols::find(const char *name) { static Symbols::Entry e; return g_defined_sym ? &e : 0; }
int AsmContext::assemble() { g_asm_calls++; g_asm_time = ++g_clock; return g_asm_ret; }

#include "core/directives_if.cpp"

static void post(AsmContext &ctx, int r, int cond_true, int cond_error, int count0)
{
  if (cond_error)
  {
    OBL(r == -1, "C10.if: an erroneous condition is an error");
    OBL(g_asm_calls == 0 && g_ntok == 0, "C10.if: nothing is assembled or skipped after an erroneous condition");
    return;
  }
  OBL(ctx.ifdef_count == count0, "C10.if: nesting count restored");
  OBL(ctx.parsing_ifdef == 0, "C10.if: condition-parsing mode is left");
  OBL(g_parsing_seen == 1, "C10.if: the condition is read in condition-parsing mode");
  if (cond_true)
  {
    OBL(g_asm_calls == 1, "C10.if: a true condition assembles its branch exactly once");
    OBL(g_first_tok_time == 0 || g_first_tok_time > g_asm_time, "C10.if: a true condition skips nothing before assembling its branch");
    OBL((g_ntok > 0) == (g_asm_ret == 2), "C10.if: the remainder is skipped iff the taken branch ended at .else");
    OBL((r == 0) == (g_asm_ret == 4 || (g_asm_ret == 2 && g_stream == 1)), "C10.if: a taken block succeeds only if it ends at its own .endif (directly, or after skipping the .else part); errors, end of input, a stray .endr or a second .else are returned as failure");
  }
  else
  {
    OBL(g_ntok > 0, "C10.if: a false condition skips its branch first");
    OBL(g_asm_calls == (g_stream == 2 ? 1 : 0), "C10.if: the alternative is assembled iff the skip stopped at .else");
    if (g_asm_calls == 1) OBL(g_asm_time > g_first_tok_time, "C10.if: the alternative is assembled after the skip");
    OBL((r == 0) == (g_stream == 1 || (g_stream == 2 && g_asm_ret == 4)), "C10.if: an untaken block succeeds only if the skip ends at its .endif, or at .else followed by an alternative that ends at the .endif");
  }
  OBL(r == 0 || r == -1, "C10.if: result code is 0 or -1");
}

static void setup(AsmContext &ctx)
{
  ctx.ifdef_count = nondet_int(); ASSUME(ctx.ifdef_count >= 0 && ctx.ifdef_count < 1000);
  ctx.parsing_ifdef = 0; ctx.tokens.line = 1; ctx.tokens.filename = "x.asm";
  g_ntok = 0; g_clock = 0; g_asm_calls = 0; g_asm_time = 0; g_first_tok_time = 0; g_errors = 0; g_parsing_seen = 0; g_name_pending = 0;
  g_asm_ret = nondet_int(); ASSUME(g_asm_ret == 0 || g_asm_ret == 2 || g_asm_ret == 3 || g_asm_ret == 4 || g_asm_ret == -1);
  g_stream = nondet_int(); ASSUME(g_stream >= 0 && g_stream <= 2);
  g_expr = nondet_int();
  g_defined_macro = nondet_int() & 1; g_defined_sym = nondet_int() & 1;
}

extern "C" void h_parse_if()
{
  AsmContext ctx; setup(ctx);
  int c0 = ctx.ifdef_count;
  int r = parse_if(&ctx);
  post(ctx, r, g_expr != 0, g_expr == -1, c0);
  CANARY("h_parse_if end");
}

extern "C" void h_parse_ifdef()
{
  AsmContext ctx; setup(ctx);
  int ifndef = nondet_int() & 1;
  g_name_pending = 1; g_name_type = nondet_int(); ASSUME(g_name_type >= -1 && g_name_type <= 11);
  int c0 = ctx.ifdef_count;
  int r = parse_ifdef(&ctx, ifndef);
  int defined = g_defined_macro || g_defined_sym;
  if (g_name_type != TOKEN_STRING)
  {
    OBL(r == -1 && g_errors > 0 && g_asm_calls == 0 && g_ntok == 0, "C10.ifdef: a missing name is an error and nothing is assembled or skipped");
  }
  else
  {
    post(ctx, r, ifndef ? !defined : defined, 0, c0);
  }
  CANARY("h_parse_ifdef end");
}
