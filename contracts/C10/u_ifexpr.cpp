/* C10 — contract of eval_ifdef_expression / parse_ifdef_expression / eval_operation / get_operator
 * (core/ifdef_expression.cpp) against the documented semantics: numbers, !, comparison operators
 * == < > <= >= (tightest), then &&, then ||, left to right, parentheses.
 * One group per operator sequence (concrete operators, symbolic 32-bit operands); token-script contract.
 */
#include "stub_ctx.h"
#include "core/tokens.h"
#include "core/Macros.h"
#include "core/ifdef_expression.h"

extern "C" { int g_tt[16]; char g_c0[16]; char g_c1[16]; int g_tv[16]; int g_len, g_pos, g_cur; }
int tokens_get(AsmContext *, char *token, int len)
{
  if (g_pos >= g_len) { token[0] = 0; return TOKEN_EOF; }
  token[0] = g_c0[g_pos]; token[1] = g_c1[g_pos]; token[2] = 0; g_cur = g_tv[g_pos];
  return g_tt[g_pos++];
}
void tokens_push(AsmContext *, const char *, int token_type) { if (token_type != TOKEN_EOF && g_pos > 0) g_pos--; }
char *macros_lookup(Macros *, char *, int *) { return 0; }
Symbols::Entry *Symbols::find(const char *) { return 0; }
extern "C" int atoi(const char *s) { return g_cur; }
#define printf(...) (g_errors++, 0)
#include "core/ifdef_expression.cpp"
#undef printf

static void tok(int type, const char *s, int v) { g_c0[g_len] = s[0]; g_c1[g_len] = s[0] ? s[1] : 0; g_tt[g_len] = type; g_tv[g_len] = v; g_len++; }
/* operators: 0 == 1 >= 2 <= 3 > 4 < 5 || 6 && */
static const char *opstr(int o) { switch (o) { case 0: return "=="; case 1: return ">="; case 2: return "<="; case 3: return ">"; case 4: return "<"; case 5: return "||"; default: return "&&"; } }
static int optype(int o) { return (o == 5 || o == 6) ? TOKEN_SYMBOL : TOKEN_EQUALITY; }
static int cls(int o) { return o <= 4 ? 0 : o == 6 ? 1 : 2; }       /* comparison tightest, then &&, then || */
static int apply(int o, int a, int b)
{
  switch (o) { case 0: return a == b; case 1: return a >= b; case 2: return a <= b; case 3: return a > b; case 4: return a < b; case 5: return (a != 0) || (b != 0); default: return (a != 0) && (b != 0); }
}
#ifndef NOPS
#define NOPS 1
#endif
#ifndef O0
#define O0 0
#endif
#ifndef O1
#define O1 0
#endif
#ifndef O2
#define O2 0
#endif
#ifndef NOTMASK
#define NOTMASK 0      /* bit i set: operand i is prefixed with ! */
#endif

extern "C" void h_ifexpr()
{
  AsmContext ctx; ctx.tokens.line = 1; ctx.tokens.filename = "x.asm"; ctx.pass = 1; ctx.parsing_ifdef = 1;
  int v[NOPS + 2]; const int ops[3] = { O0, O1, O2 };
  g_len = 0; g_pos = 0; g_errors = 0;
  for (int i = 0; i <= NOPS; i++) { v[i] = nondet_int(); ASSUME(v[i] >= 0); }
  for (int i = 0; i <= NOPS; i++)
  {
    if ((NOTMASK >> i) & 1) tok(TOKEN_SYMBOL, "!", 0);
    tok(TOKEN_NUMBER, "1", v[i]);
    if (i < NOPS) tok(optype(ops[i]), opstr(ops[i]), 0);
  }
  tok(TOKEN_EOL, "\n", 0);
  /* reference */
  int rv[NOPS + 2]; int ro[NOPS + 1];
  for (int i = 0; i <= NOPS; i++) rv[i] = ((NOTMASK >> i) & 1) ? (v[i] == 0) : v[i];
  for (int i = 0; i < NOPS; i++) ro[i] = ops[i];
  for (int step = 0; step < NOPS; step++)
  {
    int m = NOPS - step, best = 0;
    for (int i = 1; i < NOPS; i++) if (i < m && cls(ro[i]) < cls(ro[best])) best = i;
    rv[best] = apply(ro[best], rv[best], rv[best + 1]);
    for (int i = best; i < NOPS - 1; i++) { ro[i] = ro[i + 1]; rv[i + 1] = rv[i + 2]; }
  }
  int r = eval_ifdef_expression(&ctx);
  OBL(r != -1, "C10.expr: a well-formed condition is accepted");
  if (r != -1) OBL((r != 0) == (rv[0] != 0), "C10.expr: the condition has the truth value of the documented semantics (comparisons, then &&, then ||, left to right)");
  CANARY("h_ifexpr end");
}
