/* C10 — contract of ifdef_ignore (core/directives_if.cpp): skipping an untaken branch.
 *
 * The token stream is arbitrary and unbounded.  The stream stub keeps the GHOST TRUE DEPTH of
 * conditional nesting (++ on .if/.ifdef/.ifndef, -- on .endif, directive introducer '.' or '#').
 * POST returns 0 exactly at the .endif, 2 exactly at the .else that belong to the level of entry,
 *      -1 (with a diagnostic) exactly at end of input; no token is consumed after the terminator.
 * INV  (loop contract) nested_if == ghost depth.
 */
#include "stub_ctx.h"
#include "core/tokens.h"

extern "C" {
int g_depth, g_dot, g_term, g_eof, g_ntok;
int *g_p_line;
}

#define P1(k) if (!done) { t[k] = s[k]; if (s[k] == 0) done = 1; }
static void put(char *t, const char *s) { int done = 0; P1(0) P1(1) P1(2) P1(3) P1(4) P1(5) P1(6) P1(7) }
static int lc(int c) { return (c >= 'A' && c <= 'Z') ? c + 32 : c; }
#define C1(k) if (r == 0 && !end) { int x = lc((unsigned char)a[k]), y = lc((unsigned char)b[k]); if (x != y) r = x - y; else if (x == 0) end = 1; }
/* loop-free strcasecmp contract for strings of at most 7 characters (longest keyword: "ifndef") */
extern "C" int strcasecmp(const char *a, const char *b)
{
  int r = 0, end = 0;
  C1(0) C1(1) C1(2) C1(3) C1(4) C1(5) C1(6) C1(7)
  OBL(r != 0 || end, "C10.ignore: strcasecmp contract used within its length bound");
  return r;
}

int tokens_get(AsmContext *asm_context, char *token, int len)
{
  int k = nondet_int();
  ASSUME(k >= 0 && k <= 10);
  g_ntok++; ASSUME(g_ntok < (1 << 28));
  OBL(g_term == 0, "C10.ignore: no token is consumed after the terminating directive");
  if (g_eof) { token[0] = 0; return TOKEN_EOF; }
  int was_dot = g_dot; g_dot = 0;
  switch (k)
  {
    case 0: token[0] = 0; g_eof = 1; return TOKEN_EOF;
    case 1: put(token, "\n"); return TOKEN_EOL;
    case 2: put(token, "."); g_dot = !was_dot; return TOKEN_SYMBOL;
    case 3: put(token, "#"); g_dot = !was_dot; return TOKEN_POUND;
    case 4: put(token, "endif"); if (was_dot) { if (g_depth == 0) g_term = 1; else g_depth--; } return TOKEN_STRING;
    case 5: put(token, "else");  if (was_dot) { if (g_depth == 0) g_term = 2; } return TOKEN_STRING;
    case 6: put(token, "if");    if (was_dot) g_depth++; return TOKEN_STRING;
    case 7: put(token, "ifdef"); if (was_dot) g_depth++; return TOKEN_STRING;
    case 8: put(token, "ifndef"); if (was_dot) g_depth++; return TOKEN_STRING;
    case 9: put(token, "ENDIF"); if (was_dot) { if (g_depth == 0) g_term = 1; else g_depth--; } return TOKEN_STRING;
    default: put(token, "mov"); return TOKEN_STRING;
  }
}
int eval_ifdef_expression(AsmContext *asm_context) { return nondet_int(); }
char *macros_lookup(Macros *macros, char *name, int *param_count) { return 0; }
Symbols::Entry *Symbols::find(const char *name) { return 0; }
int AsmContext::assemble() { return nondet_int(); }

#include "core/directives_if.cpp"

extern "C" void h_ifdef_ignore()
{
  AsmContext ctx;
  ctx.tokens.line = nondet_int(); ASSUME(ctx.tokens.line >= 0 && ctx.tokens.line < (1 << 28));
  ctx.tokens.filename = "x.asm";
  g_p_line = &ctx.tokens.line;
  g_depth = 0; g_dot = 0; g_term = 0; g_eof = 0; g_ntok = 0; g_errors = 0;
  int r = ifdef_ignore(&ctx);
  OBL(r == 0 || r == 2 || r == -1, "C10.ignore: result code is 0, 2 or -1");
  OBL((r == 0) == (g_term == 1), "C10.ignore: returns 0 exactly at the .endif matching the level of entry");
  OBL((r == 2) == (g_term == 2), "C10.ignore: returns 2 exactly at the .else matching the level of entry");
  OBL((r == -1) == (g_eof == 1 && g_term == 0), "C10.ignore: returns -1 exactly at end of input");
  OBL((r == -1) == (g_errors > 0), "C10.ignore: an unterminated conditional is reported, a terminated one is not");
  CANARY("h_ifdef_ignore end");
}
