/* C13/C12 — contracts of AsmContext::AsmContext, AsmContext::init, tokens_reset, Macros::reset,
 * Memory::Memory, Symbols::Symbols (core/AsmContext.cpp, tokens.cpp, Macros.cpp, Memory.cpp, Symbols.cpp).
 *
 * O1 fresh context: two AsmContext objects constructed over unrelated garbage (CBMC locals are
 *    nondet) and init()-ed are field-wise equal -> no field is left uninitialised, so an assembly
 *    cannot depend on what was in memory before (earlier assemblies in the same process).
 * O2 init() between passes: resets exactly the per-pass state (location counter, counters,
 *    conditional nesting, tokenizer push-back/unget state, macro expansion stack) and leaves the
 *    carried-over state (image, symbols, pass, options, error flags, list file) untouched.
 */
#define KEEP_REAL_CTORS 1
#include "stub_ctx.h"
#include <stdio.h>
#include <stdlib.h>
#include <string.h>
#include "core/Linker.h"
#include "core/Macros.h"
int parse_instruction_msp430(AsmContext *, char *) { return 0; }
void list_output_msp430(AsmContext *, uint32_t, uint32_t) {}
int parse_directives(AsmContext *) { return 0; }
int parse_org(AsmContext *) { return 0; }
extern "C" int parse_db(AsmContext *, int) { return 0; }
int parse_dc16(AsmContext *) { return 0; }
int parse_dc32(AsmContext *) { return 0; }
int parse_dc64(AsmContext *) { return 0; }
int parse_varuint(AsmContext *, int) { return 0; }
extern "C" int parse_resb(AsmContext *, int) { return 0; }
Linker::Linker() {} Linker::~Linker() {}
int Linker::add_file(const char *) { return 0; }
const char *Linker::get_symbol_at_index(int) { return 0; }
int Linker::search_code_from_symbol(const char *) { return 0; }
uint8_t *Linker::get_code_from_symbol(Imports **, const char *, uint32_t *, uint32_t *, uint8_t **, uint32_t *) { return 0; }
struct _cpu_list cpu_list[1];
extern "C" int fseek(FILE *f, long o, int w) { return 0; }
extern "C" int printf(const char *fmt, ...) { return 0; }
extern "C" int fprintf(FILE *f, const char *fmt, ...) { return 0; }
extern "C" int putc(int c, FILE *f) { return c; }
#include "core/MemoryPool.cpp"
#include "core/Memory.cpp"
#include "core/Symbols.cpp"
#include "core/Macros.cpp"
#include "core/tokens.cpp"
#include "core/AsmContext.cpp"

extern "C" void h_fresh()
{
  AsmContext a;
  AsmContext b;
  a.init(); b.init();
  OBL(a.address == b.address && a.segment == b.segment && a.pass == b.pass && a.error_count == b.error_count && a.ifdef_count == b.ifdef_count &&
      a.instruction_count == b.instruction_count && a.data_count == b.data_count && a.code_count == b.code_count && a.parsing_ifdef == b.parsing_ifdef &&
      a.def_param_stack_count == b.def_param_stack_count && a.cpu_list_index == b.cpu_list_index, "C13.fresh: counters of a fresh context are determined");
  OBL(a.cpu_type == b.cpu_type && a.bytes_per_address == b.bytes_per_address && a.flags == b.flags && a.extra_context == b.extra_context &&
      a.parse_instruction == b.parse_instruction && a.parse_directive == b.parse_directive && a.link_function == b.link_function && a.list_output == b.list_output, "C13.fresh: CPU selection of a fresh context is determined");
  OBL(a.is_dollar_hex == b.is_dollar_hex && a.strings_have_dots == b.strings_have_dots && a.strings_have_slashes == b.strings_have_slashes && a.can_tick_end_string == b.can_tick_end_string &&
      a.numbers_dont_have_dots == b.numbers_dont_have_dots && a.quiet_output == b.quiet_output && a.error == b.error && a.msp430_cpu4 == b.msp430_cpu4 && a.ignore_symbols == b.ignore_symbols &&
      a.pass_1_write_disable == b.pass_1_write_disable && a.write_list_file == b.write_list_file && a.dump_symbols == b.dump_symbols && a.dump_macros == b.dump_macros && a.optimize == b.optimize &&
      a.ignore_number_postfix == b.ignore_number_postfix && a.in_repeat == b.in_repeat, "C13.fresh: option flags of a fresh context are determined");
  OBL(a.memory.low_address == b.memory.low_address && a.memory.high_address == b.memory.high_address && a.memory.endian == b.memory.endian && a.memory.entry_point == b.memory.entry_point && a.memory.pages == b.memory.pages, "C13.fresh: the image of a fresh context is empty and determined");
  OBL(a.segment == 0 && a.linker == 0 && a.list == 0 && a.memory.pages == 0 && a.pass == 1 && a.address == 0 && a.error_count == 0 && a.error == 0, "C13.fresh: defined start values");
  OBL(a.symbols.memory_pool == b.symbols.memory_pool && a.symbols.locked == b.symbols.locked && a.symbols.in_scope == b.symbols.in_scope && a.symbols.current_scope == b.symbols.current_scope && a.symbols.debug == b.symbols.debug, "C13.fresh: the symbol table of a fresh context is empty and determined");
  OBL(a.macros.memory_pool == b.macros.memory_pool && a.macros.locked == b.macros.locked && a.macros.stack_ptr == b.macros.stack_ptr, "C13.fresh: the macro table of a fresh context is empty and determined");
  OBL(a.tokens.line == b.tokens.line && a.tokens.unget_ptr == b.tokens.unget_ptr && a.tokens.unget_stack_ptr == b.tokens.unget_stack_ptr && a.tokens.pushback_type == b.tokens.pushback_type &&
      a.tokens.pushback2_type == b.tokens.pushback2_type && a.tokens.in == b.tokens.in && a.tokens.filename == b.tokens.filename && a.tokens.token_buffer.code == b.tokens.token_buffer.code && a.tokens.token_buffer.ptr == b.tokens.token_buffer.ptr, "C13.fresh: tokenizer state of a fresh context is determined");
  int i = nondet_int(); ASSUME(i >= 0 && i < PARAM_STACK_LEN);
  OBL(a.def_param_stack_data[i] == b.def_param_stack_data[i] && a.include_path[i] == b.include_path[i], "C13.fresh: parameter and include-path buffers are determined");
  int j = nondet_int(); ASSUME(j >= 0 && j < TOKENLEN);
  OBL(a.tokens.pushback[j] == b.tokens.pushback[j] && a.tokens.pushback2[j] == b.tokens.pushback2[j] && a.tokens.unget[j] == b.tokens.unget[j], "C13.fresh: tokenizer buffers are determined");
  int k = nondet_int(); ASSUME(k >= 0 && k <= MAX_NESTED_MACROS);
  OBL(a.def_param_stack_ptr[k] == b.def_param_stack_ptr[k] && a.tokens.unget_stack[k] == b.tokens.unget_stack[k], "C13.fresh: nesting stacks are determined");
  CANARY("h_fresh end");
}

/* init() between the passes */
extern "C" void h_init_between_passes()
{
  AsmContext a;
  /* arbitrary state at the end of pass 1 */
  a.pass = nondet_int(); a.error_count = nondet_int(); a.error = nondet_int() & 1; a.address = nondet_int(); a.instruction_count = nondet_int();
  a.code_count = nondet_int(); a.data_count = nondet_int(); a.ifdef_count = nondet_int(); a.parsing_ifdef = nondet_int(); a.bytes_per_address = nondet_int();
  a.in_repeat = nondet_int() & 1; a.optimize = nondet_int() & 1; a.quiet_output = nondet_int() & 1; a.write_list_file = nondet_int() & 1; a.dump_symbols = nondet_int() & 1;
  a.def_param_stack_count = nondet_int(); a.macros.stack_ptr = nondet_int(); a.tokens.line = nondet_int(); a.tokens.unget_ptr = nondet_int(); a.tokens.unget_stack_ptr = nondet_int();
  a.tokens.pushback[0] = nondet_char(); a.tokens.pushback2[0] = nondet_char(); a.memory.low_address = nondet_uint(); a.memory.high_address = nondet_uint(); a.memory.endian = nondet_int();
  a.segment = nondet_int(); a.tokens.in = 0; a.macros.memory_pool = 0;
  FILE *list0 = a.list; Linker *linker0 = a.linker; MemoryPage *pages0 = a.memory.pages;
  const int pass0 = a.pass, ec0 = a.error_count, err0 = a.error, opt0 = a.optimize, q0 = a.quiet_output, wl0 = a.write_list_file, ds0 = a.dump_symbols, seg0 = a.segment, en0 = a.memory.endian;
  const unsigned lo0 = a.memory.low_address, hi0 = a.memory.high_address;
  a.init();
  OBL(a.address == 0 && a.instruction_count == 0 && a.code_count == 0 && a.data_count == 0 && a.ifdef_count == 0 && a.parsing_ifdef == 0 && a.bytes_per_address == 1 && a.in_repeat == 0 && a.def_param_stack_count == 0,
      "C13.init: per-pass counters and the location counter restart");
  OBL(a.tokens.line == 1 && a.tokens.pushback[0] == 0 && a.tokens.pushback2[0] == 0 && a.tokens.unget_ptr == 0 && a.tokens.unget_stack_ptr == 0 && a.tokens.unget_stack[0] == 0 && a.macros.stack_ptr == 0 && a.macros.memory_pool == 0,
      "C13.init: tokenizer push-back / unget state and the macro expansion stack restart");
  OBL(a.pass == pass0 && a.error_count == ec0 && a.error == err0, "C13.init: pass number and recorded errors are carried over (an error of pass 1 cannot be forgotten)");
  OBL(a.optimize == opt0 && a.quiet_output == q0 && a.write_list_file == wl0 && a.dump_symbols == ds0 && a.list == list0 && a.linker == linker0, "C13.init: options, list file and linker are carried over");
  OBL(a.memory.pages == pages0 && a.memory.low_address == lo0 && a.memory.high_address == hi0 && a.memory.endian == en0 && a.segment == seg0, "C13.init: the image is carried over untouched");
  CANARY("h_init end");
}
