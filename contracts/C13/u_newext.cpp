/* C13/C18 — new_extension (static, main/naken_asm.cpp): the listing file name is derived from the output
 * file name by replacing (or appending) the extension, so the listing can never be written over the
 * output file: result == stem + ".lst" and result != input, for every name of at most 8 characters.
 * BOUNDED (name length); all characters symbolic.
 */
#include <stdio.h>
#include <stdlib.h>
#include <string.h>
#include <unistd.h>
#include "vh.h"
#include "core/AsmContext.h"
#include "fileio/file.h"
Memory::Memory() {} Memory::~Memory() {}
Symbols::Symbols() {} Symbols::~Symbols() {} Macros::Macros() {} Macros::~Macros() {} AsmContext::AsmContext() {} AsmContext::~AsmContext() {}
extern "C" void exit(int c) { ASSUME(0); }
#define printf(...) (0)
#define fprintf(...) (0)
#define main naken_main
#include "main/naken_asm.cpp"
#undef main
#undef printf
#undef fprintf

extern "C" void h_new_extension()
{
  char name[32], orig[32];
  int n = nondet_int(); ASSUME(n >= 1 && n <= 8);
  for (int i = 0; i < 8; i++) { name[i] = nondet_char(); ASSUME(name[i] != 0 && name[i] != '/'); }
  name[n] = 0;
  for (int i = 0; i < 9; i++) orig[i] = name[i];
  new_extension(name, "lst", 32);
  /* expected stem: up to the last dot that is not the first character, else the whole name */
  int dot = -1;
  for (int i = 1; i < 8; i++) if (i < n && orig[i] == '.') dot = i;
  int stem = (dot >= 0) ? dot : n;
  int ok = 1;
  for (int i = 0; i < 8; i++) if (i < stem && name[i] != orig[i]) ok = 0;
  OBL(ok && name[stem] == '.' && name[stem + 1] == 'l' && name[stem + 2] == 's' && name[stem + 3] == 't' && name[stem + 4] == 0,
      "C13.lst: the listing name is the output name with its extension replaced by (or extended with) .lst");
  int differs = 0;
  for (int i = 0; i < 9; i++) if (!differs && name[i] != orig[i]) differs = 1;
  int orig_is_lst = (stem + 4 == n && orig[stem] == '.' && orig[stem + 1] == 'l' && orig[stem + 2] == 's' && orig[stem + 3] == 't');
  OBL(differs || orig_is_lst, "C13.lst: the listing file is never the output file itself (unless the output is already named *.lst)");
  CANARY("h_new_extension end");
}
