/* C03 — contract of write_wdc / write_int24 (fileio/write_wdc.cpp): the WDC binary ('Z', then blocks of
 * 24-bit address, 24-bit length, data) carries exactly the written bytes of the image.
 * PRE  low <= high <= 0xffffff (24-bit addresses); witness W as for write_hex.
 * POST W written  => exactly one block covers W and carries its value; W not written => no block covers W;
 *      every block has 1 <= length <= 65536 and address + length - 1 <= 0xffffff.
 */
#include <stdio.h>
#include "vh.h"
#include "core/Memory.h"
extern "C" {
unsigned g_low, g_high, g_W; int g_W_written; unsigned char g_W_val;
int g_hits; unsigned char g_hit_val; int g_bad, g_state, g_z; unsigned g_fld, g_baddr, g_blen;
unsigned g_rd_a; int g_rd_v, g_rd_have;   /* read_debug is a function of the address: the last answer is remembered */
}
Memory::Memory() {} Memory::~Memory() {}
int Memory::read_debug(uint32_t address)
{
  if (address == g_W) return g_W_written ? 5 : DL_EMPTY;
  if (g_rd_have && g_rd_a == address) return g_rd_v;
  g_rd_have = 1; g_rd_a = address; g_rd_v = nondet_int();
  return g_rd_v;
}
uint8_t Memory::read8(uint32_t address) { if (address == g_W) return g_W_val; return nondet_uchar(); }
/* ghost WDC reader: state 0..2 address bytes, 3..5 length bytes, 6 expects the data block */
extern "C" int putc(int c, FILE *f)
{
  unsigned b = (unsigned)c;
  if (b > 255) g_bad = 1;
  if (!g_z) { if (b != 'Z') g_bad = 1; g_z = 1; return c; }
  if (g_state < 3) { g_fld |= b << (8 * g_state); if (g_state == 2) { g_baddr = g_fld; g_fld = 0; } g_state++; }
  else if (g_state < 6) { g_fld |= b << (8 * (g_state - 3)); if (g_state == 5) { g_blen = g_fld; g_fld = 0; } g_state++; }
  else g_bad = 1;                       /* data must come through fwrite */
  return c;
}
extern "C" size_t fwrite(const void *p, size_t size, size_t n, FILE *f)
{
  const unsigned char *buf = (const unsigned char *)p;
  if (g_state != 6 || n != 1 || size != g_blen || size < 1 || size > 65536) g_bad = 1;
  if (g_W >= g_baddr && g_W - g_baddr < (unsigned)size) { g_hits++; g_hit_val = buf[g_W - g_baddr]; }
  g_state = 0;
  return n;
}
#include "fileio/write_wdc.cpp"
extern "C" void h_write_wdc()
{
  Memory m;
  m.low_address = nondet_uint(); m.high_address = nondet_uint();
  ASSUME(m.low_address <= m.high_address && m.high_address <= 0xffffffu);
  g_low = m.low_address; g_high = m.high_address; g_W = nondet_uint(); g_W_written = nondet_int() & 1; g_W_val = nondet_uchar();
  g_rd_have = 0; g_hits = 0; g_bad = 0; g_state = 0; g_z = 0; g_fld = 0; g_baddr = 0; g_blen = 0;
  int r = write_wdc(&m, (FILE *)0);
  OBL(r == 0 && g_z == 1 && g_state == 0, "C03.wdc: the file starts with 'Z' and ends on a block boundary");
  OBL(!g_bad, "C03.wdc: every block has a 24-bit address, a length of 1..65536 and exactly that many data bytes");
  if (g_W >= m.low_address && g_W <= m.high_address && g_W_written)
    OBL(g_hits == 1 && g_hit_val == g_W_val, "C03.wdc: a written byte of the image appears exactly once, at its address, with its value");
  else
    OBL(g_hits == 0, "C03.wdc: no byte that is not in the image appears in the file");
  CANARY("h_write_wdc end");
}
