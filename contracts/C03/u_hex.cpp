/* C03 — contract of write_hex / write_hex_line (fileio/write_hex.cpp): the Intel HEX file carries
 * exactly the image.
 *
 * Image  : arbitrary low <= high < 2^32-1; projected on one arbitrary witness address W with ghost
 *          (written?, value); every other address is served with arbitrary marker/data.
 * Output : fprintf is replaced by a contract that recognises exactly the formats the writer uses and
 *          feeds a ghost Intel-HEX DECODER written from the format specification (record types
 *          00 data, 04 extended linear address, 01 end; two's-complement checksum over all bytes).
 * POST   W in [low, high] and written  =>  the decoded file assigns value to W exactly once;
 *        otherwise the decoded file assigns nothing to W; every record's length field equals its
 *        data count and every checksum verifies; the loop terminates (decreases high + 1 - n).
 * Both loops (address range; bytes of a record) are closed by DFCC loop contracts: unbounded ranges.
 */
#include <stdio.h>
#include <stdarg.h>
#include "vh.h"
#include "core/Memory.h"

extern "C" {
unsigned g_low, g_high; unsigned g_W; int g_W_written; unsigned char g_W_val;
unsigned g_seg;
int g_w_emitted; int g_w_pre; unsigned char g_w_byte_pre;
unsigned char g_w_byte;
int g_bad_checksum;
int g_rec_len, g_rec_addr, g_rec_sum, g_rec_n, g_in_rec, g_end_records;
}
Memory::Memory() {} Memory::~Memory() {}
int Memory::read_debug(uint32_t address) { if (address == g_W) return g_W_written ? 5 : DL_EMPTY; return nondet_int(); }
uint8_t Memory::read8(uint32_t address) { if (address == g_W) return g_W_val; return nondet_uchar(); }

int vf_printf(FILE *out, const char *fmt, long A0 = 0, long A1 = 0, long A2 = 0)
{
  int ai = 0; long AV[3]; AV[0] = A0; AV[1] = A1; AV[2] = A2;
  if (fmt[0] == ':' && fmt[1] == '0' && fmt[2] == '2' && fmt[3] == '0')      /* ":02000004%04X%02X\n" */
  {
    unsigned hi = ((unsigned)AV[ai++]); unsigned ck = ((unsigned)AV[ai++]);
    g_seg = hi << 16;
    if (hi > 0xffff || ((2 + 0 + 0 + 4 + (hi >> 8) + (hi & 0xff) + ck) & 0xff) != 0) g_bad_checksum = 1;
  }
  else if (fmt[0] == ':')                                                      /* ":%02X%04X00" */
  {
    g_w_pre = g_w_emitted; g_w_byte_pre = g_w_byte;
    g_rec_len = ((int)AV[ai++]); g_rec_addr = ((unsigned)AV[ai++]);
    if (g_rec_len < 0 || g_rec_len > 255 || g_rec_addr > 0xffff) g_bad_checksum = 1;
    g_rec_sum = g_rec_len + (g_rec_addr >> 8) + (g_rec_addr & 0xff); g_rec_n = 0; g_in_rec = 1;
  }
  else if (fmt[0] == '%' && fmt[4] == 0)                                       /* "%02X" data byte */
  {
    unsigned b = ((unsigned)AV[ai++]);
    if (b > 255) g_bad_checksum = 1;
    if (g_seg + g_rec_addr + g_rec_n == g_W) { g_w_emitted++; g_w_byte = b; }
    g_rec_sum += b; g_rec_n++;
  }
  else if (fmt[0] == '%')                                                      /* "%02X\n" checksum */
  {
    unsigned ck = ((unsigned)AV[ai++]);
    if (ck > 255 || ((g_rec_sum + ck) & 0xff) != 0 || g_rec_n != g_rec_len) g_bad_checksum = 1;
    g_in_rec = 0;
  }
  else { OBL(0, "C03.hex: unknown output format"); }
  return 0;
}
extern "C" int fputs(const char *s, FILE *out)
{
  /* ":00000001FF\n" */
  if (s[0] == ':' && s[7] == '0' && s[8] == '1' && s[9] == 'F' && s[10] == 'F') g_end_records++;
  else OBL(0, "C03.hex: unknown literal record");
  return 0;
}
#define fprintf vf_printf
#include "fileio/write_hex.cpp"
#undef fprintf

extern "C" void h_write_hex()
{
  Memory m;
  m.low_address = nondet_uint(); m.high_address = nondet_uint();
  ASSUME(m.low_address <= m.high_address);   /* any range, including one that ends at 0xffffffff */
  g_low = m.low_address; g_high = m.high_address; g_W = nondet_uint(); g_W_written = nondet_int() & 1; g_W_val = nondet_uchar();
  g_seg = 0; g_w_emitted = 0; g_bad_checksum = 0; g_in_rec = 0; g_end_records = 0; g_w_byte = 0;
  int r = write_hex(&m, (FILE *)0);
  OBL(r == 0, "C03.hex: writer succeeds");
  OBL(!g_bad_checksum, "C03.hex: every record has a valid length field, address field and checksum");
  OBL(g_end_records == 1 && g_in_rec == 0, "C03.hex: the file ends with exactly one end-of-file record and no open record");
  if (g_W >= m.low_address && g_W <= m.high_address && g_W_written)
    OBL(g_w_emitted == 1 && g_w_byte == g_W_val, "C03.hex: a written byte of the image appears exactly once, at its address, with its value");
  else
    OBL(g_w_emitted == 0, "C03.hex: no byte that is not in the image appears in the file");
  CANARY("h_write_hex end");
}
