/* C03 — contract of write_uf2 (fileio/write_uf2.cpp) through the real FileIo byte writers: the output is a
 * sequence of 512-byte UF2 blocks (Microsoft UF2 specification: magicStart0/1, flags, targetAddr, payloadSize,
 * blockNo, numBlocks, familyID, 476 data bytes, magicEnd).  A ghost UF2 reader fed by putc decodes it.
 * PRE  low <= high, high - low < 2^24 (int arithmetic of the writer), witness address W.
 * POST every block is well formed; the blocks of the image family are numbered 0,1,2,... at consecutive
 *      256-byte target addresses from low; numBlocks in every image block equals the number of image blocks
 *      in the file; W in [low, high] appears exactly once with its value; the tail of the last payload is zero;
 *      nothing else appears; the file ends on a block boundary.
 */
#include <stdio.h>
#include <stdlib.h>
#include <string.h>
#include "vh.h"
#include "core/Memory.h"
#include "fileio/FileIo.h"
#define UF2_IMAGE_FAMILY 0xe48bff59u
#define UF2_PICO_EF_FAMILY 0xe48bff57u
extern "C" {
unsigned g_low, g_high, g_W; unsigned char g_W_val;
int g_hits; unsigned char g_hit_val; int g_bad; unsigned g_pos, g_fld;
unsigned g_b_addr, g_b_size, g_b_no, g_b_total, g_b_family;
unsigned g_nimg, g_total; int g_nother;
}
Memory::Memory() {} Memory::~Memory() {}
uint8_t Memory::read8(uint32_t address) { if (address == g_W) return g_W_val; return nondet_uchar(); }
/* ghost UF2 reader, one byte at a time */
extern "C" int putc(int c, FILE *f)
{
  unsigned b = (unsigned)c;
  if (b > 255) { g_bad = 1; b &= 255; }
  if (g_pos < 32)
  {
    g_fld |= b << (8 * (g_pos & 3));
    if ((g_pos & 3) == 3)
    {
      unsigned k = g_pos >> 2, v = g_fld;
      g_fld = 0;
      if (k == 0 && v != 0x0a324655u) g_bad = 1;
      if (k == 1 && v != 0x9e5d5157u) g_bad = 1;
      if (k == 2 && v != 0x00002000u) g_bad = 1;      /* familyID present */
      if (k == 3) g_b_addr = v;
      if (k == 4) { g_b_size = v; if (v == 0 || v > 476) g_bad = 1; }
      if (k == 5) g_b_no = v;
      if (k == 6) g_b_total = v;
      if (k == 7) g_b_family = v;
    }
  }
  else if (g_pos < 32 + 476)
  {
    unsigned k = g_pos - 32;
    if (k < g_b_size)
    {
      if (g_b_family == UF2_IMAGE_FAMILY)
      {
        unsigned a = g_b_addr + k;
        if (a == g_W) { g_hits++; g_hit_val = (unsigned char)b; }
        if (a > g_high && b != 0) g_bad = 1;          /* tail of the last payload */
      }
    }
    else if (b != 0) g_bad = 1;                        /* padding after the payload */
  }
  else
  {
    g_fld |= b << (8 * (g_pos & 3));
    if (g_pos == 511)
    {
      if (g_fld != 0x0ab16f30u) g_bad = 1;
      g_fld = 0;
      if (g_b_family == UF2_IMAGE_FAMILY)
      {
        if (g_b_no != g_nimg) g_bad = 1;                          /* numbered in order from 0 */
        if (g_b_addr != g_low + 256u * g_nimg) g_bad = 1;         /* consecutive payloads from the lowest address */
        if (g_b_size != 256) g_bad = 1;
        if (g_nimg == 0) g_total = g_b_total; else if (g_b_total != g_total) g_bad = 1;
        g_nimg++;
      }
      else g_nother++;
    }
  }
  g_pos = (g_pos + 1) & 511;
  return c;
}
extern "C" int fclose(FILE *f) { return 0; }
extern "C" FILE *fopen(const char *, const char *) { return 0; }
extern "C" int fseek(FILE *, long, int) { return 0; }
extern "C" long ftell(FILE *) { return 0; }
extern "C" int getc(FILE *) { return -1; }
extern "C" size_t fread(void *, size_t, size_t, FILE *) { return 0; }
extern "C" size_t fwrite(const void *, size_t, size_t, FILE *) { g_bad = 1; return 0; }
#include "fileio/FileIo.cpp"
#include "fileio/write_uf2.cpp"
static long g_file_obj[8];
extern "C" void h_write_uf2()
{
  Memory m;
  m.low_address = nondet_uint(); m.high_address = nondet_uint();
  ASSUME(m.low_address <= m.high_address && m.high_address - m.low_address < (1u << 24) && m.high_address < 0xfffffe00u);
  g_low = m.low_address; g_high = m.high_address; g_W = nondet_uint(); g_W_val = nondet_uchar();
  g_hits = 0; g_bad = 0; g_pos = 0; g_fld = 0; g_nimg = 0; g_total = 0; g_nother = 0;
  g_b_addr = g_b_size = g_b_no = g_b_total = g_b_family = 0;
  int r = write_uf2(&m, (FILE *)(void *)&g_file_obj[0]);
  OBL(r == 0 && g_pos == 0, "C03.uf2: the file is a whole number of 512-byte blocks");
  OBL(!g_bad, "C03.uf2: every block is well formed and the image blocks are numbered in order at consecutive 256-byte addresses from the lowest address");
  OBL(g_nimg == g_total && g_nimg >= 1, "C03.uf2: numBlocks of the image blocks equals the number of image blocks in the file");
  OBL(g_nimg == (g_high - g_low) / 256 + 1, "C03.uf2: the image blocks cover the lowest to the highest address and no further block");
  if (g_W >= g_low && g_W <= g_high)
    OBL(g_hits == 1 && g_hit_val == g_W_val, "C03.uf2: every address of the image appears exactly once with its value");
  else if (g_W > g_high && g_W - g_low < 256u * g_nimg)
    OBL(g_hits == 1 && g_hit_val == 0, "C03.uf2: the tail of the last payload is zero");
  else
    OBL(g_hits == 0, "C03.uf2: no byte outside the image appears in the file");
  CANARY("h_write_uf2 end");
}
