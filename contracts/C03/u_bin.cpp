/* C03 — contract of write_bin (fileio/write_bin.cpp): the file is the image from the lowest to the
 * highest address; position W - low holds the byte at W (unwritten addresses read as 0 from Memory).
 * POST exactly high - low + 1 bytes are written in address order; the witness position carries read8(W).
 */
#include <stdio.h>
#include "vh.h"
#include "core/Memory.h"
extern "C" { unsigned g_low, g_high, g_W; unsigned char g_W_val; unsigned g_pos; int g_hits; unsigned char g_hit_val; int g_order_ok; unsigned g_last_read; }
Memory::Memory() {} Memory::~Memory() {}
uint8_t Memory::read8(uint32_t address) { g_last_read = address; if (address == g_W) return g_W_val; return nondet_uchar(); }
extern "C" int putc(int c, FILE *f)
{
  if (g_last_read != g_low + g_pos) g_order_ok = 0;             /* byte number g_pos comes from address low + g_pos */
  if (g_low + g_pos == g_W) { g_hits++; g_hit_val = (unsigned char)c; }
  g_pos++;
  return c;
}
#include "fileio/write_bin.cpp"
extern "C" void h_write_bin()
{
  Memory m;
  m.low_address = nondet_uint(); m.high_address = nondet_uint();
  ASSUME(m.low_address <= m.high_address && m.high_address - m.low_address < 0xffffffffu);   /* any range up to the top of the address space; not the whole 4 GiB (byte count in 32 bits) */
  g_low = m.low_address; g_high = m.high_address; g_W = nondet_uint(); g_W_val = nondet_uchar();
  g_pos = 0; g_hits = 0; g_order_ok = 1; g_last_read = 0;
  int r = write_bin(&m, (FILE *)0);
  OBL(r == 0, "C03.bin: writer succeeds");
  OBL(g_pos == g_high - g_low + 1, "C03.bin: the file holds exactly high - low + 1 bytes");
  OBL(g_order_ok, "C03.bin: byte k of the file is the byte at address low + k");
  if (g_W >= g_low && g_W <= g_high) OBL(g_hits == 1 && g_hit_val == g_W_val, "C03.bin: every address of the range appears once with its value");
  else OBL(g_hits == 0, "C03.bin: nothing outside the range appears");
  CANARY("h_write_bin end");
}
