/* C03 — contract of write_srec / write_srec_line (fileio/write_srec.cpp): the Motorola S-record file
 * carries exactly the image.  Ghost DECODER written from the format: S0 header, S1/S2/S3 data with
 * 16/24/32-bit address, count = address bytes + data bytes + 1, checksum = one's complement of the
 * low byte of the sum of count, address and data bytes; S9 termination record.
 * PRE  low <= high < 2^32-1; for the fixed 24-bit form every address < 2^24 (stated);
 * POST as for write_hex (witness W appears exactly once with its value iff it is a written byte).
 */
#include <stdio.h>
#include <stdarg.h>
#include <time.h>
#include "vh.h"
#include "core/Memory.h"
#include "core/cpu_list.h"

extern "C" {
unsigned g_low, g_high; unsigned g_W; int g_W_written; unsigned char g_W_val;
int g_w_emitted; int g_w_pre; unsigned char g_w_byte_pre; unsigned char g_w_byte;
int g_bad; int g_rec_type, g_rec_count, g_rec_sum, g_rec_n, g_rec_dlen, g_in_rec, g_term_records, g_hdr_records;
unsigned g_rec_addr;
}
Memory::Memory() {} Memory::~Memory() {}
int Memory::read_debug(uint32_t address) { if (address == g_W) return g_W_written ? 5 : DL_EMPTY; return nondet_int(); }
uint8_t Memory::read8(uint32_t address) { if (address == g_W) return g_W_val; return nondet_uchar(); }
static struct tm g_tm;
extern "C" time_t time(time_t *t) { return 0; }
extern "C" struct tm *localtime(const time_t *t)
{
  g_tm.tm_year = nondet_int(); g_tm.tm_mon = nondet_int(); g_tm.tm_mday = nondet_int(); g_tm.tm_hour = nondet_int(); g_tm.tm_min = nondet_int(); g_tm.tm_sec = nondet_int();
  ASSUME(g_tm.tm_year >= 70 && g_tm.tm_year < 8000 && g_tm.tm_mon >= 0 && g_tm.tm_mon < 12 && g_tm.tm_mday >= 1 && g_tm.tm_mday <= 31 && g_tm.tm_hour >= 0 && g_tm.tm_hour < 24 && g_tm.tm_min >= 0 && g_tm.tm_min < 60 && g_tm.tm_sec >= 0 && g_tm.tm_sec <= 60);
  return &g_tm;
}

int vf_printf(FILE *out, const char *fmt, long A0 = 0, long A1 = 0, long A2 = 0)
{
  if (fmt[0] == 'S' && fmt[1] == '%')                 /* "S%c%02X%04X" / %06X / %08X : record start */
  {
    int t = (int)A0 - '0'; int count = (int)A1; unsigned addr = (unsigned)A2; int digits = fmt[9] - '0';
    g_w_pre = g_w_emitted; g_w_byte_pre = g_w_byte;
    int abytes = digits / 2;
    if (!(t == 0 || t == 1 || t == 2 || t == 3)) g_bad = 1;
    if ((t <= 1 && digits != 4) || (t == 2 && digits != 6) || (t == 3 && digits != 8)) g_bad = 1;
    if (digits < 8 && (addr >> (4 * digits)) != 0) g_bad = 1;                     /* address must fit its field */
    if (count < abytes + 1 || count > 255) g_bad = 1;
    g_rec_type = t; g_rec_count = count; g_rec_addr = addr; g_rec_dlen = count - abytes - 1; g_rec_n = 0; g_in_rec = 1;
    g_rec_sum = count + (addr & 0xff) + ((addr >> 8) & 0xff) + ((addr >> 16) & 0xff) + ((addr >> 24) & 0xff);
    if (t == 0) g_hdr_records++;
  }
  else if (fmt[0] == 'S' && fmt[1] == '9')            /* "S903%04x%02x\n" termination */
  {
    unsigned addr = (unsigned)A0; unsigned ck = (unsigned)A1;
    if (addr > 0xffff || ck > 0xff || ((3 + (addr >> 8) + (addr & 0xff) + ck) & 0xff) != 0xff) g_bad = 1;
    g_term_records++;
  }
  else if (fmt[0] == '%' && fmt[4] == 0)              /* "%02X" data byte */
  {
    unsigned b = (unsigned)A0;
    if (b > 255 || !g_in_rec) g_bad = 1;
    if (g_rec_type != 0 && g_rec_addr + (unsigned)g_rec_n == g_W) { g_w_emitted++; g_w_byte = b; }
    g_rec_sum += b; g_rec_n++;
  }
  else if (fmt[0] == '%')                             /* "%02X\n" checksum */
  {
    unsigned ck = (unsigned)A0;
    if (ck > 255 || ((g_rec_sum + ck) & 0xff) != 0xff || g_rec_n != g_rec_dlen) g_bad = 1;
    g_in_rec = 0;
  }
  else { OBL(0, "C03.srec: unknown output format"); }
  return 0;
}
#define fprintf vf_printf
#include "fileio/write_srec.cpp"
#undef fprintf

extern "C" void h_write_srec()
{
  Memory m;
  m.low_address = nondet_uint(); m.high_address = nondet_uint(); m.entry_point = nondet_uint();
  int srec_size = nondet_int();
  ASSUME(srec_size == SREC_16 || srec_size == SREC_24 || srec_size == SREC_32);
  ASSUME(m.low_address <= m.high_address);   /* any range, including one that ends at 0xffffffff */
  ASSUME(srec_size != SREC_24 || m.high_address <= 0xffffff);
#ifndef ANY_ENTRY
  ASSUME(m.entry_point == 0xffffffff || m.entry_point <= 0xffff);   /* wider entry points: separate obligation group */
#endif
  g_low = m.low_address; g_high = m.high_address; g_W = nondet_uint(); g_W_written = nondet_int() & 1; g_W_val = nondet_uchar();
  g_w_emitted = 0; g_bad = 0; g_in_rec = 0; g_term_records = 0; g_hdr_records = 0; g_w_byte = 0;
  int r = write_srec(&m, (FILE *)0, srec_size);
  OBL(r == 0, "C03.srec: writer succeeds");
  OBL(!g_bad, "C03.srec: every record has a valid type, count, address field and checksum");
  OBL(g_hdr_records == 1 && g_in_rec == 0, "C03.srec: exactly one header record, no open record");
  OBL(g_term_records == (m.entry_point != 0xffffffff ? 1 : 0), "C03.srec: the entry point, when set, is carried by one termination record");
  if (g_W >= m.low_address && g_W <= m.high_address && g_W_written)
    OBL(g_w_emitted == 1 && g_w_byte == g_W_val, "C03.srec: a written byte of the image appears exactly once, at its address, with its value");
  else
    OBL(g_w_emitted == 0, "C03.srec: no byte that is not in the image appears in the file");
  CANARY("h_write_srec end");
}
