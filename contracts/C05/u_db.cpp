/* C05 — contract of parse_db (core/directives_data.cpp): .db/.dc8/.ascii/.asciiz
 *
 * PRE   pass in {1,2}; segment != BSS; 0 <= address < 2^30; null_term_flag in {0,1};
 *       arbitrary unbounded token stream; quoted strings of 0..3 characters, free of
 *       backslashes (escape handling is outside this contract; stated gap).
 * POST  (ret == 0) bytes are written strictly sequentially from a0 (every Memory::write goes to
 *                  a0 + #bytes-so-far with marker DL_DATA), address == a0 + #bytes,
 *                  data_count advanced by #bytes;
 *                  numeric witness K: operand K's byte is (uint8_t)value_K, value_K in -128..255;
 *                  string witness (S, c): character c of quoted operand S is written at its
 *                  sequential position; .asciiz adds exactly one 0 after each string.
 *       (ret == -1) a diagnostic was printed; an out-of-range operand wrote no byte.
 */
#include "stub_ctx.h"
#include "core/eval_expression.h"
#include "asm/common.h"

extern "C" {
int g_a0, g_dc0, g_K, g_S, g_ci, g_ncalls, g_nstr, g_ntok, g_nbytes, g_seq_ok, g_dl_ok;
int *g_p_address, *g_p_data_count, *g_p_pass;
int g_kpos, g_kres, g_khit; long long g_kval; unsigned char g_kdata;
int g_spos, g_slen, g_shit, g_zhit, g_nulterm; unsigned char g_schar, g_sdata, g_zdata;
long long g_lastval; int g_lastres; int g_nb_at_last;
int g_cur_len, g_cur_pos;   /* string most recently returned by tokens_get */
}

void Memory::write(uint32_t address, uint8_t data, int line)
{
  if (address != (uint32_t)(g_a0 + g_nbytes)) { g_seq_ok = 0; }
  if (line != DL_DATA) { g_dl_ok = 0; }
  if (g_ncalls > g_K && g_nbytes == g_kpos) { g_khit++; g_kdata = data; }
  if (g_nstr > g_S && g_ci < g_slen && g_nbytes == g_spos + g_ci) { g_shit++; g_sdata = data; }
  if (g_nstr > g_S && g_nbytes == g_spos + g_slen) { g_zhit++; g_zdata = data; }
  g_nbytes++;
}

int tokens_get(AsmContext *asm_context, char *token, int len)
{
  int t = nondet_int();
  ASSUME(t >= -1 && t <= 11);
  g_ntok++;
  ASSUME(g_ntok < (1 << 26));
#ifdef MAXTOK
  if (g_ntok > MAXTOK) { token[0] = '\n'; token[1] = 0; return TOKEN_EOL; }
#endif
  if (t == TOKEN_QUOTED)
  {
    int l = nondet_int();
    ASSUME(l >= 0 && l <= 3);
    char c0 = nondet_char(), c1 = nondet_char(), c2 = nondet_char();
    ASSUME(c0 != ',');
    ASSUME(c0 != 0 && c0 != '\\' && c1 != 0 && c1 != '\\' && c2 != 0 && c2 != '\\');
    token[0] = c0; token[1] = c1; token[2] = c2; token[3] = 0;
    token[l] = 0;
    g_cur_len = l; g_cur_pos = g_nbytes;
    if (g_nstr == g_S) { g_spos = g_nbytes; g_slen = l; g_schar = (unsigned char)(g_ci == 0 ? c0 : g_ci == 1 ? c1 : c2); }
    g_nstr++;
    return t;
  }
  token[0] = nondet_char(); token[1] = nondet_char(); token[2] = 0;
  return t;
}

void tokens_push(AsmContext *asm_context, const char *token, int token_type) {}
int ignore_operand(AsmContext *asm_context) { return 0; }

int eval_expression(AsmContext *asm_context, int *num)
{
  int v = nondet_int();
  int r = nondet_int();
  ASSUME(r == 0 || r == -1);
  *num = v;
  if (g_ncalls == g_K) { g_kval = v; g_kres = r; g_kpos = g_nbytes; }
  g_lastval = v; g_lastres = r; g_nb_at_last = g_nbytes;
  g_ncalls++;
  return r;
}
int eval_expression(AsmContext *asm_context, Var &var) { OBL(0, "C05.db: unexpected call of the Var evaluator"); return -1; }

#include "core/Var.cpp"
#include "core/directives_data.cpp"

extern "C" void h_db()
{
  AsmContext ctx;
  ctx.pass = nondet_int();
  ctx.memory.endian = nondet_int();
  ctx.address = nondet_int();
  ctx.data_count = nondet_int();
  ctx.segment = nondet_int();
  ctx.tokens.line = nondet_int();
  ctx.tokens.filename = "x.asm";
  int null_term = nondet_int();
  ASSUME(ctx.pass == 1 || ctx.pass == 2);
  ASSUME(ctx.address >= 0 && ctx.address < (1 << 30));
  ASSUME(ctx.data_count >= 0 && ctx.data_count < (1 << 30));
  ASSUME(ctx.segment == SEGMENT_CODE);
  ASSUME(ctx.tokens.line >= 0 && ctx.tokens.line < (1 << 30));
  ASSUME(null_term == 0 || null_term == 1);
  g_a0 = ctx.address; g_dc0 = ctx.data_count; g_K = nondet_int(); g_S = nondet_int(); g_ci = nondet_int();
  ASSUME(g_K >= 0 && g_K < (1 << 26) && g_S >= 0 && g_S < (1 << 26) && g_ci >= 0 && g_ci < 3);
  g_ncalls = 0; g_nstr = 0; g_ntok = 0; g_nbytes = 0; g_seq_ok = 1; g_dl_ok = 1; g_errors = 0; g_range_errors = 0;
  g_khit = 0; g_shit = 0; g_zhit = 0; g_kres = 0; g_kval = 0; g_kpos = 0; g_spos = 0; g_slen = 0; g_lastres = 0; g_lastval = 0; g_nb_at_last = 0;
  g_cur_len = 0; g_cur_pos = 0; g_nulterm = null_term;
  g_p_address = &ctx.address; g_p_data_count = &ctx.data_count; g_p_pass = &ctx.pass;
  const int pass0 = ctx.pass, line0 = ctx.tokens.line;

  int r = parse_db(&ctx, null_term);

  OBL(r == 0 || r == -1, "C05.db: result code is 0 or -1");
  OBL(g_seq_ok, "C05.db: every byte goes to the location counter in sequence, nothing elsewhere");
  OBL(g_dl_ok, "C05.db: every byte is marked as data");
  OBL(ctx.address == g_a0 + g_nbytes, "C05.db: location counter advanced by the number of bytes placed");
  OBL(ctx.pass == pass0, "C05.db: frame - pass unchanged");
  if (r == 0)
  {
    OBL(ctx.data_count == g_dc0 + g_nbytes, "C05.db: data_count advanced by the number of bytes placed");
    OBL(ctx.tokens.line == line0 + 1, "C05.db: line counter advanced once");
    OBL(g_errors == 0, "C05.db: no diagnostic on success");
    if (g_ncalls > g_K)
    {
      OBL(g_khit == 1, "C05.db: numeric operand places exactly one byte");
      if (g_kres == 0)
      {
        OBL(g_kval >= -128 && g_kval <= 255, "C05.db: accepted value lies in -128..255");
        OBL(g_kdata == (unsigned char)g_kval, "C05.db: byte equals the operand value modulo 256");
      }
      else OBL(pass0 == 1, "C05.db: unresolved operand accepted only in pass 1");
    }
    if (g_nstr > g_S)
    {
      if (g_ci < g_slen)
      {
        OBL(g_shit == 1 && g_sdata == g_schar, "C05.db: each character of a quoted string is placed once, in order");
      }
      if (null_term == 1) OBL(g_zhit == 1 && g_zdata == 0, "C05.db: .asciiz appends one NUL after the string");
    }
  }
  else
  {
    OBL(g_errors > 0, "C05.db: failure is reported with a diagnostic");
    if (g_range_errors > 0) OBL(g_ncalls > 0 && (g_lastval < -128 || g_lastval > 255), "C05.db: a range error is raised only for a value outside -128..255 (every documented value is accepted)");
    if (g_ncalls > 0 && g_lastres == 0 && (g_lastval < -128 || g_lastval > 255))
      OBL(g_nbytes == g_nb_at_last, "C05.db: out-of-range operand rejected with no byte written");
  }
  CANARY("h_db end");
}
