/* C05 — contract of parse_dc16 / parse_dc32 / parse_dc64 (core/directives_data.cpp)
 *
 * PRE   pass in {1,2}; endian in {0,1}; segment != BSS; 0 <= address < 2^30;
 *       the token stream is arbitrary and unbounded (< 2^26 tokens, stated).
 * POST  (ret == 0)  address == a0 + W * #operands, data_count advanced likewise,
 *                   endianness unchanged, tokens.line advanced by one;
 *                   witness (K, j): byte j of operand K was written exactly once at
 *                   a0 + W*K + j with value byte_j(value_K) in the selected byte order
 *                   and marker DL_DATA; the stray witness X outside [a0, a0+W*n) was never written;
 *                   .dc16: every accepted value lies in -32768..65535.
 *       (ret == -1) a diagnostic was printed; no byte of the rejected operand was written.
 * FRAME only address, data_count, tokens.line (and the image through Memory::write).
 *
 * The loop of each function is closed by the loop contract in dc.loops.json
 * (unbounded operand lists).  tokens_get / eval_expression / ignore_operand are
 * replaced by their contracts (arbitrary token, arbitrary value or "unresolved").
 */
#include "stub_ctx.h"
#include "core/eval_expression.h"
#include "asm/common.h"

extern "C" {
int g_a0, g_dc0, g_K, g_j, g_ncalls, g_ntok, g_hits, g_xhits;
unsigned g_X;
int *g_p_address, *g_p_endian, *g_p_data_count, *g_p_pass;
unsigned char g_hit_data;
int g_hit_line;
long long g_kval;
int g_kres;
long long g_lastval;
int g_lastres;
}

void Memory::write(uint32_t address, uint8_t data, int line)
{
  if (address == (uint32_t)(g_a0 + WIDTH * g_K + g_j)) { g_hits++; g_hit_data = data; g_hit_line = line; }
  if (address == g_X) { g_xhits++; }
}

int tokens_get(AsmContext *asm_context, char *token, int len)
{
  int t = nondet_int();
  ASSUME(t >= -1 && t <= 11);
  token[0] = nondet_char(); token[1] = nondet_char(); token[2] = 0;
  g_ntok++;
  ASSUME(g_ntok < (1 << 26));
  return t;
}

void tokens_push(AsmContext *asm_context, const char *token, int token_type) {}
int ignore_operand(AsmContext *asm_context) { return 0; }

int eval_expression(AsmContext *asm_context, int *num)
{
  int v = nondet_int();
  int r = nondet_int();
  ASSUME(r == 0 || r == -1);
  *num = v;
  if (g_ncalls == g_K) { g_kval = v; g_kres = r; }
  g_lastval = v; g_lastres = r;
  g_ncalls++;
  return r;
}

int eval_expression(AsmContext *asm_context, Var &var)
{
  long long v = nondet_ll();
  int r = nondet_int();
  ASSUME(r == 0 || r == -1);
  var.set_int((uint64_t)v);
  if (g_ncalls == g_K) { g_kval = v; g_kres = r; }
  g_lastval = v; g_lastres = r;
  g_ncalls++;
  return r;
}

#include "core/Var.cpp"
#include "core/directives_data.cpp"

extern "C" void h_dc()
{
  AsmContext ctx;
  ctx.pass = nondet_int();
  ctx.memory.endian = nondet_int();
  ctx.address = nondet_int();
  ctx.data_count = nondet_int();
  ctx.segment = nondet_int();
  ctx.tokens.line = nondet_int();
  ctx.tokens.filename = "x.asm";
  ASSUME(ctx.pass == 1 || ctx.pass == 2);
  ASSUME(ctx.memory.endian == 0 || ctx.memory.endian == 1);
  ASSUME(ctx.address >= 0 && ctx.address < (1 << 30));
  ASSUME(ctx.data_count >= 0 && ctx.data_count < (1 << 30));
  ASSUME(ctx.segment == SEGMENT_CODE);
  ASSUME(ctx.tokens.line >= 0 && ctx.tokens.line < (1 << 30));
  g_a0 = ctx.address; g_dc0 = ctx.data_count; g_K = nondet_int(); g_j = nondet_int(); g_X = nondet_uint();
  ASSUME(g_K >= 0 && g_K < (1 << 26) && g_j >= 0 && g_j < WIDTH);
  g_ncalls = 0; g_ntok = 0; g_hits = 0; g_xhits = 0; g_errors = 0; g_range_errors = 0; g_kres = 0; g_kval = 0; g_lastres = 0; g_lastval = 0;
  g_p_address = &ctx.address; g_p_endian = &ctx.memory.endian; g_p_data_count = &ctx.data_count; g_p_pass = &ctx.pass;
  const int endian0 = ctx.memory.endian, dc0 = ctx.data_count, line0 = ctx.tokens.line, pass0 = ctx.pass;

  int r = FN(&ctx);

  OBL(r == 0 || r == -1, "C05.dc: result code is 0 or -1");
  OBL(ctx.memory.endian == endian0 && ctx.pass == pass0, "C05.dc: frame - endianness and pass unchanged");
  if (r == 0)
  {
    OBL(ctx.address == g_a0 + WIDTH * g_ncalls, "C05.dc: location counter advanced by width x operands");
    OBL(ctx.data_count == dc0 + WIDTH * g_ncalls, "C05.dc: data_count advanced by width x operands");
    OBL(ctx.tokens.line == line0 + 1, "C05.dc: line counter advanced once");
    OBL(g_errors == 0, "C05.dc: no diagnostic on success");
    if (g_ncalls > g_K)
    {
      OBL(g_hits == 1, "C05.dc: witness byte written exactly once");
      OBL(g_hit_line == DL_DATA, "C05.dc: witness byte marked as data");
      if (g_kres == 0)
      {
#if WIDTH == 2
        OBL(g_kval >= -32768 && g_kval <= 65535, "C05.dc16: accepted value lies in -32768..65535");
#endif
        unsigned long long v = (unsigned long long)g_kval;
        int idx = (endian0 == 0) ? g_j : (WIDTH - 1 - g_j);
        unsigned char want = (unsigned char)(v >> (8 * idx));
        OBL(g_hit_data == want, "C05.dc: witness byte has the value of its operand in the selected byte order");
      }
      else
      {
        OBL(pass0 == 1, "C05.dc: unresolved operand accepted only in pass 1");
      }
    }
    else
    {
      OBL(g_hits == 0, "C05.dc: nothing written beyond the last operand");
    }
    if (g_X < (unsigned)g_a0 || g_X >= (unsigned)(g_a0 + WIDTH * g_ncalls))
    {
      OBL(g_xhits == 0, "C05.dc: no byte written outside [a0, a0 + advance)");
    }
  }
  else
  {
    OBL(g_errors > 0, "C05.dc: failure is reported with a diagnostic");
#if WIDTH == 2
    if (g_range_errors > 0) OBL(g_ncalls > 0 && (g_lastval < -32768 || g_lastval > 65535), "C05.dc16: a range error is raised only for a value outside -32768..65535 (every documented value is accepted)");
#else
    OBL(g_range_errors == 0, "C05.dc: wider directives wrap to their width, they never raise a range error");
#endif
    OBL(ctx.address == g_a0 + WIDTH * g_ncalls || (g_ncalls > 0 && ctx.address == g_a0 + WIDTH * (g_ncalls - 1)),
        "C05.dc: on failure only whole operands were written");
#if WIDTH == 2
    if (g_ncalls > 0 && (g_lastval < -32768 || g_lastval > 65535) && g_lastres == 0)
    {
      OBL(ctx.address == g_a0 + WIDTH * (g_ncalls - 1), "C05.dc16: out-of-range operand rejected with none of its bytes written");
    }
#endif
  }
  CANARY("h_dc end");
}
