/* C05/C19/C16 — Memory (core/Memory.cpp, core/MemoryPage.h): the sparse image behaves like a
 * byte map with a debug marker per byte.
 *
 * BOUNDED stand-in (linked page list; DESIGN 1): at most 2 pages are created (two single-byte
 * writes, or one 16/32-bit write), all addresses, data and markers symbolic, real 64 KiB pages.
 * Every page walk carries an unwinding assertion, so "write() finds or creates its page and
 * terminates" is checked for every address including the last page 0xffff0000.
 */
#include "vh.h"
#include "core/AsmContext.h"
#include "core/Memory.h"
void print_error_internal(AsmContext *, const char *, int) {}
#include "core/Memory.cpp"

extern "C" void h_mem_write()
{
  Memory m;
  m.endian = nondet_int() & 1;
  unsigned a1 = nondet_uint(), a2 = nondet_uint(), q = nondet_uint();
  unsigned char d1 = nondet_uchar(), d2 = nondet_uchar();
  int l1 = nondet_int(), l2 = nondet_int();
  int use8 = nondet_int() & 1;
  m.write(a1, d1, l1);
  if (use8) { m.write8(a2, d2); } else { m.write(a2, d2, l2); }
  /* one arbitrary query address decides the whole byte map (witness projection) */
  unsigned char want = (q == a2) ? d2 : (q == a1) ? d1 : 0;
  int want_dl = (q == a2 && !use8) ? l2 : (q == a1) ? l1 : DL_EMPTY;
  OBL(m.read8(q) == want, "C05.mem: read8 returns the last byte written to the address, 0 if never written");
  OBL(m.read_debug(q) == want_dl, "C05.mem: read_debug returns the marker of the last write(), unchanged by write8(), empty if never written");
  OBL(m.low_address == (a1 < a2 ? a1 : a2) && m.high_address == (a1 > a2 ? a1 : a2), "C05.mem: low/high address are the min/max written address");
  CANARY("h_mem_write end");
}

extern "C" void h_mem_write1()
{
  Memory m;
  m.endian = nondet_int() & 1;
  unsigned a1 = nondet_uint(), q = nondet_uint();
  unsigned char d1 = nondet_uchar();
  int l1 = nondet_int();
  OBL(m.read8(q) == 0 && m.read_debug(q) == DL_EMPTY && !m.in_use(q), "C05.mem: a fresh image is empty everywhere");
  m.write(a1, d1, l1);
  OBL(m.read8(q) == ((q == a1) ? d1 : 0), "C05.mem: after one write, read8 returns the byte at its address and 0 elsewhere");
  OBL(m.read_debug(q) == ((q == a1) ? l1 : DL_EMPTY), "C05.mem: after one write, read_debug returns the marker at its address and empty elsewhere");
  OBL(m.low_address == a1 && m.high_address == a1 && m.in_use(a1), "C05.mem: low/high address equal the written address");
  CANARY("h_mem_write1 end");
}

extern "C" void h_mem_w16()
{
  Memory m;
  m.endian = nondet_int() & 1;
  unsigned a = nondet_uint(), a3 = nondet_uint();
  unsigned short v = nondet_ushort();
  ASSUME(a <= 0xfffffffeu);
  m.write16(a, v);
  OBL(m.read16(a) == v, "C05.mem: read16 returns what write16 stored");
  OBL(m.read8(a) == (unsigned char)(m.endian == ENDIAN_LITTLE ? v : v >> 8) && m.read8(a + 1) == (unsigned char)(m.endian == ENDIAN_LITTLE ? v >> 8 : v),
      "C05.mem: write16 stores the two bytes at a, a+1 in the selected byte order");
  if (a3 != a && a3 != a + 1) OBL(m.read8(a3) == 0, "C05.mem: write16 touches no other address");
  OBL(m.low_address == a && m.high_address == a + 1, "C05.mem: low/high after write16");
  CANARY("h_mem_w16 end");
}

extern "C" void h_mem_w32()
{
  Memory m;
  m.endian = nondet_int() & 1;
  unsigned a = nondet_uint(), a3 = nondet_uint();
  unsigned v = nondet_uint();
  ASSUME(a <= 0xfffffffcu);
  m.write32(a, v);
  OBL(m.read32(a) == v, "C05.mem: read32 returns what write32 stored");
  int le = (m.endian == ENDIAN_LITTLE);
  OBL(m.read8(a) == (unsigned char)(v >> (le ? 0 : 24)) && m.read8(a + 1) == (unsigned char)(v >> (le ? 8 : 16)) &&
      m.read8(a + 2) == (unsigned char)(v >> (le ? 16 : 8)) && m.read8(a + 3) == (unsigned char)(v >> (le ? 24 : 0)),
      "C05.mem: write32 stores the four bytes at a..a+3 in the selected byte order");
  if (a3 - a >= 4) OBL(m.read8(a3) == 0, "C05.mem: write32 touches no other address");
  OBL(m.low_address == a && m.high_address == a + 3, "C05.mem: low/high after write32");
  CANARY("h_mem_w32 end");
}

/* MemoryPage::set_data / set_debug (core/MemoryPage.h): the page remembers the lowest and highest offset
   that was ever written (offset_min/offset_max), whatever the order of the writes; naken_util's whole-image
   disassembly and the page-range queries rely on it (C19).  Two writes into one page, all offsets symbolic. */
extern "C" void h_page_minmax()
{
  /* an empty page as its constructor leaves it, without running the two memsets over 320 KiB */
  MemoryPage *pp = (MemoryPage *)malloc(sizeof(MemoryPage)); ASSUME(pp != 0);
  MemoryPage &page = *pp;
  unsigned base = nondet_uint() & 0xffff0000u;
  page.address = base; page.offset_min = PAGE_SIZE; page.offset_max = 0; page.next = 0;
  unsigned o1 = nondet_uint(), o2 = nondet_uint();
  ASSUME(o1 < PAGE_SIZE && o2 < PAGE_SIZE);
  unsigned char d1 = nondet_uchar(), d2 = nondet_uchar();
  int use_debug = nondet_int() & 1;
  page.set_data(base + o1, d1);
  OBL(page.offset_min == o1 && page.offset_max == o1, "C19.page: after the first write the used range of the page is exactly that offset");
  if (use_debug) page.set_debug(base + o2, 7); else page.set_data(base + o2, d2);
  OBL(page.offset_min == (o1 < o2 ? o1 : o2) && page.offset_max == (o1 > o2 ? o1 : o2), "C19.page: the used range of a page is [lowest, highest] written offset in any write order");
  if (!use_debug) OBL(page.bin[o2] == d2 && (o1 == o2 || page.bin[o1] == d1), "C19.page: bytes are stored at their offsets");
  CANARY("h_page_minmax end");
}
