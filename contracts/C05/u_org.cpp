/* C05 — contract of parse_org (core/directives.cpp; function text extracted verbatim) with the real AsmContext::set_org:
 * PRE   any operand value, bytes_per_address in {1, 2, 4}, either pass.
 * POST  resolved operand N  => returns 0 and the location counter (a byte address) is N * bytes_per_address, nothing else of
 *                              the context changes (pass, data_count, segment);
 *       unresolved operand  => -1 with a diagnostic in BOTH passes and the location counter is unchanged (a .org that pass 1
 *                              cannot evaluate would move every later label between the passes).
 */
#include "stub_ctx.h"
#include "core/eval_expression.h"
extern "C" { int g_val, g_res; }
int eval_expression(AsmContext *asm_context, int *num) { *num = g_val; return g_res; }
#include "gen/parse_org.inc"
extern "C" void h_org()
{
  AsmContext ctx;
  ctx.pass = 1 + (nondet_int() & 1); ctx.address = nondet_int(); ctx.data_count = nondet_int(); ctx.segment = nondet_int();
  int b = nondet_int() & 3; ctx.bytes_per_address = b == 0 ? 1 : b == 1 ? 2 : 4;
  g_val = nondet_int(); g_res = (nondet_int() & 1) ? 0 : -1; g_errors = 0;
  ASSUME(g_val >= 0 && g_val < (1 << 28));
  const int a0 = ctx.address, p0 = ctx.pass, d0 = ctx.data_count, s0 = ctx.segment;
  int r = parse_org(&ctx);
  if (g_res == 0) OBL(r == 0 && ctx.address == g_val * ctx.bytes_per_address, "C05.org: the location counter becomes N * bytes_per_address");
  else OBL(r == -1 && g_errors > 0 && ctx.address == a0, "C05.org: an operand that cannot be evaluated is an error in both passes and moves nothing");
  OBL(ctx.pass == p0 && ctx.data_count == d0 && ctx.segment == s0, "C05.org: nothing else of the context changes");
  CANARY("h_org end");
}
