/* C05 — contracts of parse_data_fill, parse_resb, parse_align_bits, parse_align_bytes
 * (core/directives_data.cpp) and parse_org (core/directives.cpp) + AsmContext::set_org.
 *
 * eval_expression is replaced by its contract: the n-th call returns (g_ev_res[n], g_ev_val[n]).
 */
#include "stub_ctx.h"
#include "core/eval_expression.h"
#include "asm/common.h"

extern "C" {
int g_a0, g_neval, g_ev_val0, g_ev_res0, g_ev_val1, g_ev_res1, g_expect_res;
int g_nwrites, g_seq_ok, g_dl_ok, g_val_ok, g_fill;
int *g_p_address;
}

void Memory::write(uint32_t address, uint8_t data, int line)
{
  if (address != (uint32_t)(g_a0 + g_nwrites)) { g_seq_ok = 0; }
  if (line != DL_DATA) { g_dl_ok = 0; }
  if (data != (uint8_t)g_fill) { g_val_ok = 0; }
  g_nwrites++;
}

int tokens_get(AsmContext *asm_context, char *token, int len) { OBL(0, "C05.misc: unexpected direct token read"); return TOKEN_EOF; }
void tokens_push(AsmContext *asm_context, const char *token, int token_type) {}
int ignore_operand(AsmContext *asm_context) { return 0; }
int expect_token_s(AsmContext *asm_context, const char *s) { if (g_expect_res != 0) { g_errors++; } return g_expect_res; }
int expect_token(AsmContext *asm_context, char ch) { if (g_expect_res != 0) { g_errors++; } return g_expect_res; }

int eval_expression(AsmContext *asm_context, int *num)
{
  int n = g_neval++;
  OBL(n < 2, "C05.misc: at most two expressions are read");
  *num = (n == 0) ? g_ev_val0 : g_ev_val1;
  return (n == 0) ? g_ev_res0 : g_ev_res1;
}
int eval_expression(AsmContext *asm_context, Var &var) { OBL(0, "C05.misc: unexpected call of the Var evaluator"); return -1; }

#include "core/Var.cpp"
#include "core/directives_data.cpp"

static void setup(AsmContext &ctx)
{
  ctx.pass = nondet_int();
  ctx.address = nondet_int();
  ctx.bytes_per_address = nondet_int();
  ctx.tokens.line = 1;
  ctx.tokens.filename = "x.asm";
  ASSUME(ctx.pass == 1 || ctx.pass == 2);
  ASSUME(ctx.address >= 0 && ctx.address < (1 << 30));
  ASSUME(ctx.bytes_per_address == 1 || ctx.bytes_per_address == 2 || ctx.bytes_per_address == 4 || ctx.bytes_per_address == 8);
  g_a0 = ctx.address; g_neval = 0; g_nwrites = 0; g_seq_ok = 1; g_dl_ok = 1; g_val_ok = 1; g_errors = 0; g_range_errors = 0;
  g_ev_val0 = nondet_int(); g_ev_res0 = nondet_int(); g_ev_val1 = nondet_int(); g_ev_res1 = nondet_int(); g_expect_res = nondet_int();
  ASSUME((g_ev_res0 == 0 || g_ev_res0 == -1) && (g_ev_res1 == 0 || g_ev_res1 == -1) && (g_expect_res == 0 || g_expect_res == -1));
  g_p_address = &ctx.address;
}

/* .data_fill value, count */
extern "C" void h_fill()
{
  AsmContext ctx; setup(ctx);
  g_fill = g_ev_val0;
  ASSUME(g_ev_val1 < (1 << 30));     /* stated bound: location counter stays below 2^31 */
  int r = parse_data_fill(&ctx);
  OBL(r == 0 || r == -1, "C05.fill: result code is 0 or -1");
  OBL(g_seq_ok && g_dl_ok, "C05.fill: bytes are placed sequentially from the location counter and marked as data");
  if (r == 0)
  {
    OBL(g_ev_res1 == 0 && g_ev_val1 >= 1, "C05.fill: accepted only with a resolved count >= 1");
    OBL(g_ev_res0 == 0 || ctx.pass == 1, "C05.fill: unresolved value accepted only in pass 1");
    OBL(g_nwrites == g_ev_val1 && ctx.address == g_a0 + g_ev_val1, "C05.fill: exactly count bytes placed, location counter advanced by count");
    if (g_ev_res0 == 0)
    {
      OBL(g_ev_val0 >= -128 && g_ev_val0 <= 255, "C05.fill: accepted value lies in -128..255");
      OBL(g_val_ok, "C05.fill: every byte equals the fill value modulo 256");
    }
    OBL(g_errors == 0, "C05.fill: no diagnostic on success");
  }
  else
  {
    OBL(g_errors > 0, "C05.fill: failure is reported with a diagnostic");
    if (g_range_errors > 0) OBL(g_ev_val0 < -128 || g_ev_val0 > 255, "C05.fill: a range error is raised only for a fill value outside -128..255");
    OBL(g_nwrites == 0 && ctx.address == g_a0, "C05.fill: nothing placed on failure");
  }
  CANARY("h_fill end");
}

/* .resb n / .resw n */
extern "C" void h_resb()
{
  AsmContext ctx; setup(ctx);
  int size = nondet_int();
  ASSUME(size == 1 || size == 2);
  ASSUME(g_ev_val0 > -(1 << 28) && g_ev_val0 < (1 << 28));   /* stated bound: no signed overflow of the counter */
  int r = parse_resb(&ctx, size);
  OBL(r == 0 || r == -1, "C05.resb: result code is 0 or -1");
  OBL(g_nwrites == 0, "C05.resb: reserves without writing");
  if (r == 0)
  {
    OBL(g_ev_res0 == 0, "C05.resb: accepted only with a resolved count");
    OBL(ctx.address == g_a0 + g_ev_val0 * size, "C05.resb: location counter advanced by count x size");
    OBL(g_errors == 0, "C05.resb: no diagnostic on success");
  }
  else
  {
    OBL(g_errors > 0, "C05.resb: failure is reported with a diagnostic");
    OBL(ctx.address == g_a0, "C05.resb: location counter unchanged on failure");
  }
  CANARY("h_resb end");
}

static void align_post(AsmContext &ctx, int r, int n_bytes, int resolved)
{
  OBL(r == 0 || r == -1, "C05.align: result code is 0 or -1");
  OBL(g_nwrites == 0, "C05.align: aligns without writing");
  if (r == 0)
  {
    OBL(resolved, "C05.align: accepted only with a resolved constant");
    OBL(n_bytes >= 1 && n_bytes <= 1024 && (n_bytes & (n_bytes - 1)) == 0, "C05.align: accepted constant is a power of two between 1 and 1024 bytes");
    OBL(ctx.address >= g_a0 && ctx.address - g_a0 < n_bytes, "C05.align: advanced by less than the alignment");
    OBL((ctx.address % n_bytes) == 0, "C05.align: location counter is a multiple of the alignment");
    OBL(g_errors == 0, "C05.align: no diagnostic on success");
  }
  else
  {
    OBL(g_errors > 0, "C05.align: failure is reported with a diagnostic");
    OBL(ctx.address == g_a0, "C05.align: location counter unchanged on failure");
  }
}

extern "C" void h_align_bytes()
{
  AsmContext ctx; setup(ctx);
  int r = parse_align_bytes(&ctx);
  align_post(ctx, r, g_ev_val0, g_ev_res0 == 0);
  CANARY("h_align_bytes end");
}

extern "C" void h_align_bits()
{
  AsmContext ctx; setup(ctx);
  int r = parse_align_bits(&ctx);
  if (r == 0) OBL((g_ev_val0 % 8) == 0, "C05.align: bit alignment accepted only for multiples of 8");
  align_post(ctx, r, g_ev_val0 / 8, g_ev_res0 == 0);
  CANARY("h_align_bits end");
}
