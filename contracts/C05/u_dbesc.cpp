/* C05 — contract of parse_db (core/directives_data.cpp) for quoted strings that contain backslashes: the only escape left
 * for parse_db to interpret is \0 (the tokenizer has already replaced the others), which stands for one NUL byte.
 * One quoted operand of up to 4 characters (all symbolic, any byte except NUL), then end of line; .ascii and .asciiz.
 * POST  the bytes emitted are the string with every \0 pair replaced by a single 0 byte, in order, from the location counter
 *       on, marked as data; .asciiz appends exactly one 0; the location counter and data_count advance by the bytes emitted.
 * BOUNDED by the string length (4).
 */
#include "stub_ctx.h"
#include "core/eval_expression.h"
#include "asm/common.h"
extern "C" { int g_ntok, g_len; char g_c[5]; unsigned char g_w[8]; int g_nw, g_seq_ok, g_dl_ok; int g_a0; }
void Memory::write(uint32_t address, uint8_t data, int line)
{
  if (address != (uint32_t)(g_a0 + g_nw)) g_seq_ok = 0;
  if (line != DL_DATA) g_dl_ok = 0;
  if (g_nw < 8) g_w[g_nw] = data;
  g_nw++;
}
int tokens_get(AsmContext *asm_context, char *token, int len)
{
  g_ntok++;
  if (g_ntok == 1) { for (int i = 0; i < 5; i++) token[i] = g_c[i]; return TOKEN_QUOTED; }
  token[0] = '\n'; token[1] = 0; return TOKEN_EOL;
}
void tokens_push(AsmContext *asm_context, const char *token, int token_type) {}
int ignore_operand(AsmContext *asm_context) { return 0; }
int eval_expression(AsmContext *asm_context, int *num) { OBL(0, "C05.db: a quoted operand is not evaluated as an expression"); *num = 0; return -1; }
int eval_expression(AsmContext *asm_context, Var &var) { return -1; }
#define printf(...) (g_errors++, 0)
#include "core/Var.cpp"
#include "core/directives_data.cpp"
#undef printf
extern "C" void h_dbesc()
{
  AsmContext ctx;
  ctx.pass = 1 + (nondet_int() & 1); ctx.memory.endian = 0; ctx.address = 0x200; ctx.data_count = 0; ctx.segment = SEGMENT_CODE;
  ctx.tokens.line = 1; ctx.tokens.filename = "x.asm"; ctx.bytes_per_address = 1;
  int null_term = nondet_int() & 1;
  g_len = nondet_int(); ASSUME(g_len >= 0 && g_len <= 4);
  for (int i = 0; i < 5; i++) { g_c[i] = (i < g_len) ? nondet_char() : 0; if (i < g_len) ASSUME(g_c[i] != 0); }
  g_ntok = 0; g_nw = 0; g_seq_ok = 1; g_dl_ok = 1; g_a0 = 0x200; g_errors = 0;
  /* specification: the string with every \0 pair replaced by one NUL byte */
  unsigned char want[8]; int nwant = 0;
  for (int i = 0; i < 4; i++)
  {
    if (i < g_len)
    {
      if (g_c[i] == '\\' && i + 1 < g_len && g_c[i + 1] == '0') { want[nwant++] = 0; i++; }
      else want[nwant++] = (unsigned char)g_c[i];
    }
  }
  if (null_term) want[nwant++] = 0;
  int r = parse_db(&ctx, null_term);
  OBL(r == 0, "C05.db: a quoted string is accepted");
  OBL(g_nw == nwant && g_seq_ok && g_dl_ok, "C05.db: a string emits one byte per character, one NUL byte per \\\\0 escape (and one terminator for .asciiz), at consecutive addresses, marked as data");
  for (int i = 0; i < 6; i++) if (i < nwant && i < g_nw) OBL(g_w[i] == want[i], "C05.db: the emitted bytes are the characters of the string in order, \\\\0 standing for a NUL byte");
  OBL(ctx.address == 0x200 + nwant && ctx.data_count == nwant, "C05.db: the location counter and the data count advance by the bytes emitted");
  CANARY("h_dbesc end");
}
