/* C05/C02 — contract of add_bin8 / add_bin16 / add_bin32 (core/add_bin.cpp)
 *
 * POST  the location counter advances by the operand width in every configuration
 *       (pass 1 or 2, pass-1 writing enabled or disabled)  [two-pass size consistency];
 *       unless (pass == 1 && pass_1_write_disable) the bytes of the value are stored at
 *       a0 .. a0+w-1 in the selected byte order; in the disabled case nothing is stored.
 */
#include "stub_ctx.h"
#include "asm/common.h"

extern "C" {
int g_a0, g_nw;
unsigned g_wa0, g_wa1, g_wa2, g_wa3;
unsigned char g_wd0, g_wd1, g_wd2, g_wd3;
}

void Memory::write(uint32_t address, uint8_t data, int line)
{
  if (g_nw == 0) { g_wa0 = address; g_wd0 = data; }
  else if (g_nw == 1) { g_wa1 = address; g_wd1 = data; }
  else if (g_nw == 2) { g_wa2 = address; g_wd2 = data; }
  else if (g_nw == 3) { g_wa3 = address; g_wd3 = data; }
  g_nw++;
}

#include "core/add_bin.cpp"

extern "C" void h_addbin()
{
  AsmContext ctx;
  ctx.pass = nondet_int();
  ctx.pass_1_write_disable = nondet_int() & 1;
  ctx.memory.endian = nondet_int();
  ctx.address = nondet_int();
  ctx.tokens.line = nondet_int();
  ASSUME(ctx.pass == 1 || ctx.pass == 2);
  ASSUME(ctx.memory.endian == 0 || ctx.memory.endian == 1);
  ASSUME(ctx.address >= 0 && ctx.address < (1 << 30));
  unsigned v = nondet_uint();
  int flags = nondet_int();
  g_a0 = ctx.address; g_nw = 0;
  const int le = (ctx.memory.endian == 0);
  const int silent = (ctx.pass == 1 && ctx.pass_1_write_disable);
#if WIDTH == 1
  add_bin8(&ctx, (uint8_t)v, flags);
#elif WIDTH == 2
  add_bin16(&ctx, (uint16_t)v, flags);
#else
  add_bin32(&ctx, v, flags);
#endif
  OBL(ctx.address == g_a0 + WIDTH, "C05.add_bin: location counter advanced by the width in every pass and configuration");
  if (silent)
  {
    OBL(g_nw == 0, "C05.add_bin: nothing stored in pass 1 when pass-1 writing is disabled");
  }
  else
  {
    OBL(g_nw == WIDTH, "C05.add_bin: exactly width bytes stored");
    OBL(g_wa0 == (unsigned)g_a0, "C05.add_bin: first byte stored at the location counter");
    OBL(g_wd0 == (unsigned char)(v >> (8 * (le ? 0 : WIDTH - 1))), "C05.add_bin: byte 0 in the selected byte order");
#if WIDTH >= 2
    OBL(g_wa1 == (unsigned)g_a0 + 1, "C05.add_bin: second byte stored at counter + 1");
    OBL(g_wd1 == (unsigned char)(v >> (8 * (le ? 1 : WIDTH - 2))), "C05.add_bin: byte 1 in the selected byte order");
#endif
#if WIDTH == 4
    OBL(g_wa2 == (unsigned)g_a0 + 2 && g_wa3 == (unsigned)g_a0 + 3, "C05.add_bin: bytes 2 and 3 stored at counter + 2, + 3");
    OBL(g_wd2 == (unsigned char)(v >> (8 * (le ? 2 : 1))) && g_wd3 == (unsigned char)(v >> (8 * (le ? 3 : 0))), "C05.add_bin: bytes 2 and 3 in the selected byte order");
#endif
  }
  CANARY("h_addbin end");
}
