/* Native replay driver: feeds the nondet values of a CBMC counterexample (one per line in the
   file named by VH_REPLAY) to a harness compiled natively against the untouched /repo sources. */
#include <stdio.h>
#include <stdlib.h>
extern "C" int vh_failed = 0;
static FILE *vh_in = 0;
extern "C" long long vh_next(const char *kind)
{
  if (!vh_in) { const char *p = getenv("VH_REPLAY"); vh_in = p ? fopen(p, "r") : 0; }
  long long v = 0;
  if (!vh_in || fscanf(vh_in, "%lld", &v) != 1) { printf("REPLAY-EXHAUSTED: no more recorded values (%s)\n", kind); exit(4); }
  return v;
}
extern "C" void ENTRY();
int main()
{
  ENTRY();
  printf(vh_failed ? "REPLAY-RESULT: obligation violated natively\n" : "REPLAY-RESULT: no obligation violated natively\n");
  return vh_failed ? 1 : 0;
}
