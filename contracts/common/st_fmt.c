#include <stddef.h>
#include <stdarg.h>
/* worst-case, format-aware contract stub for snprintf: writes exactly min(n-1, U) non-NUL
   bytes and a NUL, where U is an upper bound of the rendered length computed from the format */
static size_t fmt_bound(const char *fmt, va_list ap)
{
  size_t u = 0;
  for (int i = 0; fmt[i] != 0; i++)
  {
    if (fmt[i] != '%') { u++; continue; }
    i++;
    int w = 0;
    while (fmt[i] == '-' || fmt[i] == '0' || fmt[i] == ' ' || fmt[i] == '+') i++;
    while (fmt[i] >= '0' && fmt[i] <= '9') { w = w * 10 + (fmt[i] - '0'); i++; }
    int lng = 0;
    while (fmt[i] == 'l' || fmt[i] == 'h' || fmt[i] == 'z') { if (fmt[i] == 'l') lng++; i++; }
    size_t m = 0;
    switch (fmt[i])
    {
      case '%': m = 1; break;
      case 'c': (void)va_arg(ap, int); m = 1; break;
      case 'd': case 'i': case 'u': if (lng) { (void)va_arg(ap, long); m = 20; } else { (void)va_arg(ap, int); m = 11; } break;
      case 'x': case 'X': case 'o': if (lng) { (void)va_arg(ap, long); m = 22; } else { (void)va_arg(ap, int); m = 11; } break;
      case 'f': case 'g': case 'e': (void)va_arg(ap, double); m = 48; break;
      case 'p': (void)va_arg(ap, void *); m = 18; break;
      case 's': { const char *s = va_arg(ap, const char *); size_t k = 0; while (s[k] != 0) k++; m = k; break; }
      default: __CPROVER_assert(0, "snprintf stub: unknown conversion"); break;
    }
    if ((size_t)w > m) m = w;
    u += m;
  }
  return u;
}
int snprintf(char *buf, size_t n, const char *fmt, ...)
{
  __CPROVER_assert(n > 0 && n <= __CPROVER_OBJECT_SIZE(buf) - __CPROVER_POINTER_OFFSET(buf), "snprintf: size argument fits destination");
  va_list ap; va_start(ap, fmt);
  size_t u = fmt_bound(fmt, ap);
  va_end(ap);
  size_t len = u < n - 1 ? u : n - 1;
  for (size_t i = 0; i < len; i++) buf[i] = 'x';
  buf[len] = 0;
  return (int)u;
}
int sprintf(char *buf, const char *fmt, ...)
{
  va_list ap; va_start(ap, fmt);
  size_t u = fmt_bound(fmt, ap);
  va_end(ap);
  __CPROVER_assert(u < __CPROVER_OBJECT_SIZE(buf) - __CPROVER_POINTER_OFFSET(buf), "sprintf: worst-case output fits destination");
  for (size_t i = 0; i < u; i++) buf[i] = 'x';
  buf[u] = 0;
  return (int)u;
}
int printf(const char *fmt, ...) { return 0; }
