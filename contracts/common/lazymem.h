/* Lazy memory: contract stub for Memory::read8/write8/read16/write16 used by the simulator
 * harnesses.  An association list filled on demand with symbolic bytes: read-after-read and
 * read-after-write consistent, every cell remembers its initial value and whether it was written.
 * Overflow of the list is an obligation failure (never silently dropped). */
#ifndef VERIF_LAZYMEM_H
#define VERIF_LAZYMEM_H
#include "vh.h"
#include "core/Memory.h"
#ifndef LM
#define LM 12
#endif
extern "C" {
unsigned g_la[LM]; unsigned char g_lv[LM]; unsigned char g_l0[LM]; unsigned char g_lw[LM]; int g_ln; int g_lm_overflow; unsigned g_max_addr;
}
static int lm_find(unsigned a) { for (int i = 0; i < LM; i++) { if (i < g_ln && g_la[i] == a) return i; } return -1; }
static int lm_new(unsigned a)
{
  if (g_ln >= LM) { g_lm_overflow = 1; return LM - 1; }
  g_la[g_ln] = a; g_l0[g_ln] = nondet_uchar(); g_lv[g_ln] = g_l0[g_ln]; g_lw[g_ln] = 0;
  return g_ln++;
}
static unsigned char lm_read(unsigned a) { if (a > g_max_addr) g_max_addr = a; int i = lm_find(a); if (i < 0) i = lm_new(a); return g_lv[i]; }
static void lm_write(unsigned a, unsigned char v) { if (a > g_max_addr) g_max_addr = a; int i = lm_find(a); if (i < 0) i = lm_new(a); g_lv[i] = v; g_lw[i] = 1; }
static void lm_reset() { g_ln = 0; g_lm_overflow = 0; g_max_addr = 0; }
#ifndef KEEP_REAL_MEMORY
Memory::Memory() : pages{nullptr}, low_address{0xffffffff}, high_address{0}, entry_point{0xffffffff}, endian{ENDIAN_LITTLE} {}
Memory::~Memory() {}
uint8_t Memory::read8(uint32_t address) { return lm_read(address); }
void Memory::write8(uint32_t address, uint8_t data) { lm_write(address, data); }
uint16_t Memory::read16(uint32_t address) { return endian == ENDIAN_LITTLE ? (read8(address) | (read8(address + 1) << 8)) : ((read8(address) << 8) | read8(address + 1)); }
void Memory::write16(uint32_t address, uint16_t data) { if (endian == ENDIAN_LITTLE) { write8(address, data & 0xff); write8(address + 1, data >> 8); } else { write8(address, data >> 8); write8(address + 1, data & 0xff); } }
uint32_t Memory::read32(uint32_t address) { return endian == ENDIAN_LITTLE ? (read16(address) | ((uint32_t)read16(address + 2) << 16)) : (((uint32_t)read16(address) << 16) | read16(address + 2)); }
void Memory::write32(uint32_t address, uint32_t data) { if (endian == ENDIAN_LITTLE) { write16(address, data & 0xffff); write16(address + 2, data >> 16); } else { write16(address, data >> 16); write16(address + 2, data & 0xffff); } }
int Memory::read_debug(uint32_t address) { return nondet_int(); }
#endif
#endif
