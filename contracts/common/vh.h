/* Common vocabulary of every contract harness (DESIGN 3).
 *
 *   ASSUME(c)          precondition of the function under contract
 *   OBL(c, "name")     named postcondition / invariant obligation
 *   CANARY("where")    vacuity guard: an assertion that MUST fail (reachability witness)
 *   nondet_T()         full-domain symbolic input
 *
 * Under CBMC (-DVERIF_CBMC) these are the verifier's primitives.  Without it the
 * same harness compiles natively with g++ against the untouched /repo sources and
 * nondet_T() replays the values of a counterexample (tools/replay.py).
 */
#ifndef VERIF_VH_H
#define VERIF_VH_H
#include <stdint.h>
#include <stddef.h>

#ifdef VERIF_CBMC
extern "C" {
int nondet_int();
unsigned nondet_uint();
long long nondet_ll();
unsigned long long nondet_ull();
unsigned char nondet_uchar();
char nondet_char();
unsigned short nondet_ushort();
short nondet_short();
}
/* every symbolic input is also recorded, in program order, in a ghost log so that a
   counterexample trace can be replayed natively (tools/replay.py) */
#define VH_LOGN 96
extern "C" { long long g_nd_log[VH_LOGN]; unsigned g_nd_n; }
static inline long long vh_rec(long long v) { if (g_nd_n < VH_LOGN) { g_nd_log[g_nd_n] = v; } g_nd_n++; return v; }
#define nondet_int() ((int)vh_rec((long long)(nondet_int)()))
#define nondet_uint() ((unsigned)vh_rec((long long)(nondet_uint)()))
#define nondet_ll() ((long long)vh_rec((long long)(nondet_ll)()))
#define nondet_ull() ((unsigned long long)vh_rec((long long)(nondet_ull)()))
#define nondet_uchar() ((unsigned char)vh_rec((long long)(nondet_uchar)()))
#define nondet_char() ((char)vh_rec((long long)(nondet_char)()))
#define nondet_ushort() ((unsigned short)vh_rec((long long)(nondet_ushort)()))
#define nondet_short() ((short)vh_rec((long long)(nondet_short)()))
#define ASSUME(c) __CPROVER_assume(c)
#define OBL(c, name) __CPROVER_assert((c), name)
#define CANARY(name) __CPROVER_assert(0, "canary: " name)
#else
#include <stdio.h>
#include <stdlib.h>
extern "C" long long vh_next(const char *kind);
extern "C" int vh_failed;
static inline int nondet_int() { return (int)vh_next("int"); }
static inline unsigned nondet_uint() { return (unsigned)vh_next("uint"); }
static inline long long nondet_ll() { return (long long)vh_next("ll"); }
static inline unsigned long long nondet_ull() { return (unsigned long long)vh_next("ull"); }
static inline unsigned char nondet_uchar() { return (unsigned char)vh_next("uchar"); }
static inline char nondet_char() { return (char)vh_next("char"); }
static inline unsigned short nondet_ushort() { return (unsigned short)vh_next("ushort"); }
static inline short nondet_short() { return (short)vh_next("short"); }
#define ASSUME(c) do { if (!(c)) { printf("REPLAY-ASSUME-FAILED: %s\n", #c); exit(3); } } while (0)
#define OBL(c, name) do { if (!(c)) { printf("REPLAY-FAIL: %s\n", name); vh_failed = 1; } } while (0)
#define CANARY(name) do { } while (0)
#define __CPROVER_assert(c, name) OBL(c, name)
#define __CPROVER_assume(c) ASSUME(c)
#endif

#endif
