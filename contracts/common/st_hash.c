#include <stddef.h>
#include <stdarg.h>
/* text-abstract contract stub for snprintf/sprintf used by the 2-safety form of the disassembler contract:
   the text is represented by a hash of what determines it - the sequence of format strings and their integer
   arguments (%s arguments are table strings or results of earlier formatting calls, which are already in the hash).
   The destination receives an empty string (size argument checked). */
unsigned g_text_hash;
static void vh_fmt(const char *f, va_list ap)
{
  void **q = (void **)ap;   /* CBMC models va_list as an array of pointers to the arguments */
  for (int i = 0; f[i] != 0; i++)
  {
    g_text_hash = ((g_text_hash << 5) | (g_text_hash >> 27)) ^ (unsigned char)f[i];
    if (f[i] != '%') continue;
    i++;
    while (f[i] == '-' || f[i] == '0' || f[i] == ' ' || f[i] == '+' || (f[i] >= '0' && f[i] <= '9')) i++;
    int lng = 0;
    while (f[i] == 'l' || f[i] == 'h' || f[i] == 'z') { if (f[i] == 'l') lng++; i++; }
    switch (f[i])
    {
      case '%': break;
      case 's': q++; break;
      case 'c': case 'd': case 'i': case 'u': case 'x': case 'X': case 'o':
      {
        /* the C++ front end passes narrow integers unpromoted: read the argument at the width of its object */
        void *p = *q++;
        size_t sz = __CPROVER_OBJECT_SIZE(p);
        unsigned v = sz == 1 ? *(unsigned char *)p : sz == 2 ? *(unsigned short *)p : sz == 4 ? *(unsigned *)p : (unsigned)*(unsigned long *)p;
        g_text_hash = ((g_text_hash << 5) | (g_text_hash >> 27)) ^ v;
        break;
      }
      default: __CPROVER_assert(0, "snprintf stub: unknown conversion"); break;
    }
  }
}
int snprintf(char *buf, size_t n, const char *fmt, ...)
{
  __CPROVER_assert(n > 0 && n <= __CPROVER_OBJECT_SIZE(buf) - __CPROVER_POINTER_OFFSET(buf), "snprintf: size argument fits destination");
  va_list ap; va_start(ap, fmt); vh_fmt(fmt, ap); va_end(ap);
  buf[0] = 0;
  return 0;
}
int sprintf(char *buf, const char *fmt, ...)
{
  va_list ap; va_start(ap, fmt); vh_fmt(fmt, ap); va_end(ap);
  buf[0] = 0;
  return 0;
}
int printf(const char *fmt, ...) { return 0; }
