/* Contract stubs shared by the directive-level harnesses.
 *  - constructors/destructors of the context classes do nothing (the harness
 *    assigns every field it depends on from nondet_*());
 *  - every print_error*() only records that a diagnostic was produced
 *    (ghost g_errors), which is what the "error reported" obligations need.
 */
#ifndef VERIF_STUB_CTX_H
#define VERIF_STUB_CTX_H
#include "vh.h"
#include "core/AsmContext.h"
#include "core/print_error.h"

extern "C" { int g_errors; int g_range_errors; }

#ifndef KEEP_REAL_CTORS
Memory::Memory() {}
Memory::~Memory() {}
Symbols::Symbols() {}
Symbols::~Symbols() {}
Macros::Macros() {}
Macros::~Macros() {}
AsmContext::AsmContext() {}
AsmContext::~AsmContext() {}
#endif

void print_error(AsmContext *, const char *) { g_errors++; }
void print_warning(AsmContext *, const char *) {}
void print_error_unexp(AsmContext *, const char *) { g_errors++; }
void print_error_expecting(AsmContext *, const char *, const char *) { g_errors++; }
void print_error_unknown_instr(AsmContext *, const char *) { g_errors++; }
void print_error_opcount(AsmContext *, const char *) { g_errors++; }
void print_error_illegal_operands(AsmContext *, const char *) { g_errors++; }
void print_error_illegal_expression(AsmContext *, const char *) { g_errors++; }
void print_error_illegal_register(AsmContext *, const char *) { g_errors++; }
void print_error_range(AsmContext *, const char *, int64_t, int64_t) { g_errors++; g_range_errors++; }
void print_error_unknown_operand_combo(AsmContext *, const char *) { g_errors++; }
void print_error_internal(AsmContext *, const char *, int) { g_errors++; }
void print_already_defined(AsmContext *, char *) { g_errors++; }
void print_not_defined(AsmContext *, char *) { g_errors++; }
void print_error_align(AsmContext *, int) { g_errors++; }

#endif
