/* C02 — two-pass size consistency of the variable-length data directives (.varuint / .varuint32: parse_varuint in
 * core/directives_data.cpp with the real add_bin_varuint of core/add_bin.cpp).
 * One operand, then end of line.  Pass 1 sees the operand unresolved (forward reference: eval_expression fails) or
 * resolved; pass 2 sees it resolved to an arbitrary 32-bit value.
 * POST  if pass 1 accepts the statement, the location counter advances by the same number of bytes in pass 1 and in
 *       pass 2 for EVERY value the operand can resolve to (so no later label moves between the passes); a statement
 *       whose size depends on a value pass 1 does not know must be rejected in pass 1.
 */
#include "stub_ctx.h"
#include "core/eval_expression.h"
#include "asm/common.h"
extern "C" { int g_tok_n; int g_unresolved; unsigned g_value; int g_nbytes; }
void Memory::write(uint32_t address, uint8_t data, int line) { g_nbytes++; }
uint8_t Memory::read8(uint32_t a) { return 0; }
int tokens_get(AsmContext *asm_context, char *token, int len)
{
  g_tok_n++;
  if (g_tok_n == 1) { token[0] = '1'; token[1] = 0; return TOKEN_NUMBER; }
  token[0] = '\n'; token[1] = 0; return TOKEN_EOL;
}
void tokens_push(AsmContext *asm_context, const char *token, int token_type) { g_tok_n--; }
int ignore_operand(AsmContext *asm_context) { g_tok_n = 1; return 0; }
int eval_expression(AsmContext *asm_context, int *num) { *num = 0; return -1; }
int eval_expression(AsmContext *asm_context, Var &var)
{
  g_tok_n = 1;                                  /* the operand's tokens are consumed */
  if (g_unresolved) { var.set_int((uint64_t)0); return -1; }
  var.set_int((uint64_t)g_value);
  return 0;
}
#define printf(...) (g_errors++, 0)
#include "core/Var.cpp"
#include "core/add_bin.cpp"
#include "core/directives_data.cpp"
#undef printf
static int one_pass(int pass, int unresolved, unsigned value, int fixed_size, int *bytes)
{
  AsmContext ctx;
  ctx.pass = pass; ctx.memory.endian = ENDIAN_LITTLE; ctx.address = 0x100; ctx.data_count = 0; ctx.segment = SEGMENT_CODE;
  ctx.tokens.line = 1; ctx.tokens.filename = "x.asm"; ctx.bytes_per_address = 1;
  g_tok_n = 0; g_unresolved = unresolved; g_value = value; g_nbytes = 0;
  int r = parse_varuint(&ctx, fixed_size);
  *bytes = ctx.address - 0x100;
  return r;
}
extern "C" void h_varuint()
{
  int fixed_size = (nondet_int() & 1) ? 5 : 0;             /* .varuint32 / .varuint, the two callers in AsmContext::directive */
  unsigned v = nondet_uint();
  int p1_unresolved = nondet_int() & 1;
  int b1 = 0, b2 = 0;
  g_errors = 0;
  int r1 = one_pass(1, p1_unresolved, v, fixed_size, &b1);
  int r2 = one_pass(2, 0, v, fixed_size, &b2);
  OBL(r2 == 0, "C02.varuint: a resolved operand is accepted in pass 2");
  if (r1 == 0) OBL(b1 == b2, "C02.varuint: the size reserved in pass 1 equals the size emitted in pass 2 for every value of the operand (a size that depends on an unknown value is rejected in pass 1)");
  if (r1 != 0) OBL(p1_unresolved && fixed_size == 0, "C02.varuint: pass 1 rejects only the variable-length form with an unresolved operand");
  CANARY("h_varuint end");
}
