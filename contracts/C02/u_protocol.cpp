/* C02/C13 — protocol lemma over the real cpu_list[] (core/cpu_list.cpp):
 * every encoder that records a size decision of pass 1 in the flag byte at the instruction's own
 * address (memory_write(asm_context->address, ...)) must be assembled with pass-1 writing disabled,
 * otherwise its own pass-1 output overwrites the flag and pass 2 may choose a different size
 * (or: "contents of memory left by a previous pass" influence the image).
 * The list of such encoders is generated from the sources on every run (gen/protocol_encoders.inc).
 */
#include "vh.h"
#include "core/AsmContext.h"
#include "core/cpu_list.h"
#define PROTO(f) int f(AsmContext *, char *);
#include "gen/protocol_encoders.inc"
#undef PROTO
static parse_instruction_t protocol_encoders[] = {
#define PROTO(f) f,
#include "gen/protocol_encoders.inc"
#undef PROTO
  0
};
#define NPROTO ((int)(sizeof(protocol_encoders) / sizeof(protocol_encoders[0])) - 1)
extern "C" void h_protocol()
{
  int rows = 0, checked = 0, ok = 1, nproto = 0;
  nproto = NPROTO;
  for (int n = 0; n < 85; n++)
  {
    if (rows == n && cpu_list[n].name != 0)
    {
      rows++;
      for (int k = 0; k < NPROTO; k++)
      {
        if (cpu_list[n].parse_instruction == protocol_encoders[k])
        {
          checked++;
          if (cpu_list[n].pass_1_write_disable != 1) ok = 0;
        }
      }
    }
  }
  OBL(nproto >= 1 && rows >= 60 && rows < 85, "C02.protocol: the encoder scan and the CPU table were read completely");
  OBL(checked >= nproto, "C02.protocol: every flag-protocol encoder is selected by at least one CPU row");
  OBL(ok, "C02.protocol: every CPU row that selects a flag-protocol encoder disables pass-1 writing");
  CANARY("h_protocol end");
}
