/* representation invariant of Simulate8008: sp indexes stack[8] (masked with & 7 at every write) */
#define WF(s) ((s).sp < 8)
#define PCVAL(s) ((unsigned)(s).pc)
