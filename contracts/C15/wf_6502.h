/* representation invariant of Simulate6502: the registers are ints holding 8-bit values, PC a 16-bit value */
#define WF(s) ((s).reg_a >= 0 && (s).reg_a <= 255 && (s).reg_x >= 0 && (s).reg_x <= 255 && (s).reg_y >= 0 && (s).reg_y <= 255 && \
               (s).reg_sr >= 0 && (s).reg_sr <= 255 && (s).reg_sp >= 0 && (s).reg_sp <= 255 && (s).reg_pc >= 0 && (s).reg_pc <= 0xffff)
#define WF_RELAXED(s) ((s).reg_a >= 0 && (s).reg_a <= 255 && (s).reg_x >= 0 && (s).reg_x <= 255 && (s).reg_y >= 0 && (s).reg_y <= 255 && \
               (s).reg_sr >= 0 && (s).reg_sr <= 255 && (s).reg_sp >= 0 && (s).reg_sp <= 255 && (s).reg_pc >= 0 && (s).reg_pc <= 0xffff + 3)
#define PCVAL(s) ((unsigned)(s).reg_pc)
