/* representation invariant of SimulateTms1000: X is a 2-bit register, Y and A are 4-bit registers, every RAM cell holds a
   4-bit value (ram[64] is indexed by X:Y, and Y and A are loaded from RAM cells) */
static int wf_tms1000_ram(const unsigned char *r) { int ok = 1; for (int i = 0; i < 64; i++) { if (r[i] > 15) ok = 0; } return ok; }
#define WF(s) ((s).reg_x < 4 && (s).reg_y < 16 && (s).reg_a < 16 && wf_tms1000_ram(&(s).ram[0]))
#define PCVAL(s) ((unsigned)(s).pc)
