/* C15 — generic single-step contract of a simulator class, instantiated per CPU with
 *   -DSIMFILE=simulate/<cpu>.cpp -DSIMCLASS=<Class> [-DINC1=... -DINC2=...] [-DWF_HEADER=C15/wf_<cpu>.h]
 *
 * PRE   wf(sim): the simulator's own representation invariant (ranges of the fields it uses as
 *       indices; contracts/C15/wf_<cpu>.h, empty for simulators that need none); every other
 *       field, the program counter and all memory contents arbitrary (object havocked, lazy memory).
 * POST  run(-1, step=1) returns control with 0 (executed/break) or -1 (illegal instruction);
 *       every array access in bounds, every pointer dereference valid, no division by zero
 *       (CBMC checks on the real code); memory is touched only through the Memory interface,
 *       at a bounded number of cells;  wf(sim) holds again (inductive: holds after any history);
 *       determinism (-DDETERMINISM): a second copy started from the same state over the same
 *       memory ends in the same state with the same return value.
 */
#include <stdio.h>
#include <stdlib.h>
#include <string.h>
#include <stdint.h>
#include <signal.h>
#include <unistd.h>
#ifndef LM
#define LM 24
#endif
#include "lazymem.h"
#include "simulate/Simulate.h"

extern "C" void exit(int c) { ASSUME(0); }
extern "C" int usleep(unsigned u) { return 0; }
extern "C" int getc(FILE *f) { return nondet_int(); }
extern "C" int putc(int c, FILE *f) { return c; }
extern "C" int fclose(FILE *f) { return 0; }
typedef void (*sh_t)(int);
extern "C" sh_t signal(int s, sh_t h) { return 0; }

#define VSTR(x) #x
#define VXSTR(x) VSTR(x)
#include "simulate/Simulate.cpp"
#ifdef INC1
#include VXSTR(INC1)
#endif
#ifdef INC2
#include VXSTR(INC2)
#endif
#ifdef INC3
#include VXSTR(INC3)
#endif
#include VXSTR(SIMFILE)
#ifdef WF_HEADER
#include VXSTR(WF_HEADER)
#else
#define WF(s) 1
#endif

static void fix(SIMCLASS &sim, Memory *m, int auto_run)
{
  sim.memory = m; sim.show = false; sim.auto_run = auto_run; sim.step_mode = false; sim.do_clear = false; sim.serial_in = 0; sim.serial_out = 0;
  sim.break_io = 0xffffffff; sim.serial_address = 0xffffffff; sim.usec = 1; sim.cycle_count = 0; sim.nested_call_count = 0;
}

extern "C" void h_sim()
{
  Memory m; m.endian = nondet_int() & 1;
  SIMCLASS sim(&m);
  __CPROVER_havoc_object(&sim);
  int auto_run = nondet_int() & 1;
  fix(sim, &m, auto_run);
  ASSUME(WF(sim));
  /* input classes: the program counter within 16 bytes of the top of the address space is a separate
     class (instruction fetch running over the top: listed finding), everything else must be clean */
#if defined(PCVAL) && defined(ADDR_MAX)
#ifdef PC_AT_TOP
  ASSUME(PCVAL(sim) > ADDR_MAX - 16u);
#else
  ASSUME(PCVAL(sim) <= ADDR_MAX - 16u);
#endif
#endif
  Simulate::stop_running = false;
#ifdef DETERMINISM
  SIMCLASS sim2(&m);
  memcpy(&sim2, &sim, sizeof(sim));
#endif
  lm_reset();
  int r = sim.run(-1, 1);
  OBL(r == 0 || r == -1, "C15.step: one step returns control (executed, break or illegal instruction)");
  OBL(!g_lm_overflow, "C15.step: a step touches a bounded number of memory cells");
#ifdef WF_RELAXED
  OBL(WF_RELAXED(sim), "C15.step: the simulator's representation invariant is preserved (program counter may run at most one instruction past the top of the address space)");
#endif
  OBL(WF(sim), "C15.step: the simulator's representation invariant is preserved");
#ifdef ADDR_MAX
  OBL(g_max_addr <= ADDR_MAX + 1u, "C15.step: no memory access beyond the simulated address space (a multi-byte access may straddle its top by one byte)");
  OBL(g_max_addr <= ADDR_MAX, "C15.step: every memory access lies inside the simulated address space");
#endif
#ifdef DETERMINISM
  for (int i = 0; i < LM; i++) if (i < g_ln) g_lv[i] = g_l0[i];      /* same initial memory */
  int r2 = sim2.run(-1, 1);
  OBL(r2 == r, "C15.step: repeating the step from the same state returns the same status");
  int same = 1;
  const unsigned char *p1 = (const unsigned char *)&sim, *p2 = (const unsigned char *)&sim2;
  for (unsigned i = 0; i < sizeof(sim); i++) if (p1[i] != p2[i]) same = 0;
  OBL(same, "C15.step: repeating the step from the same state gives the same resulting state");
#endif
  CANARY("h_sim end");
}
