/* representation invariant of Simulate1802: reg_p, reg_x, reg_n index reg_r[16] (masked with & 0xf) */
#define WF(s) ((s).reg_p < 16 && (s).reg_x < 16 && (s).reg_n < 16)
#define PCVAL(s) ((unsigned)(s).reg_r[(s).reg_p & 15])
