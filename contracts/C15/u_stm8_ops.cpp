/* C15 — contract of the STM8 simulator's indexed-operand decoders (simulate/stm8.cpp, the real translation unit):
 *   execute_op_offset8_index_x/_y, execute_op_offset16_index_x/_y, execute_op_offset24_index_x/_y
 * for the non-branching load instructions that use them (LD with 8/16-bit offsets, LDF with 24-bit offsets).
 * PRE   arbitrary simulator state (object havocked), arbitrary memory (lazy memory contract), program counter below 2^24.
 * POST  the decoder consumes exactly the operand: after it the program counter is the address of the next instruction
 *       (pc + 1, + 2, + 3 for 8-, 16-, 24-bit offsets) - the step contract's "the PC after a non-branching instruction is the
 *       address of the next instruction" for these forms; both index registers behave alike.
 */
#include <stdio.h>
#include <stdlib.h>
#include <string.h>
#include <stdint.h>
#include <signal.h>
#include <unistd.h>
#ifndef LM
#define LM 24
#endif
#include "lazymem.h"
#include "simulate/Simulate.h"
extern "C" void exit(int c) { ASSUME(0); }
extern "C" int usleep(unsigned u) { return 0; }
extern "C" int getc(FILE *f) { return nondet_int(); }
extern "C" int putc(int c, FILE *f) { return c; }
extern "C" int fclose(FILE *f) { return 0; }
typedef void (*sh_t)(int);
extern "C" sh_t signal(int s, sh_t h) { return 0; }
#define printf(...) (0)
#include "simulate/Simulate.cpp"
#include "table/stm8.cpp"
#include "disasm/stm8.cpp"
#include "simulate/stm8.cpp"
#undef printf
extern "C" void h_stm8_ops()
{
  Memory m; m.endian = nondet_int() & 1;
  /* no constructor (its reset() scans the opcode table): the decoders' contract holds from any object state */
  SimulateStm8 *simp = (SimulateStm8 *)malloc(sizeof(SimulateStm8)); ASSUME(simp != 0);
  SimulateStm8 &sim = *simp;
  __CPROVER_havoc_object(simp);
  sim.memory = &m; sim.show = false; sim.auto_run = 0; sim.step_mode = false; sim.do_clear = false; sim.serial_in = 0; sim.serial_out = 0;
  sim.break_io = 0xffffffff; sim.serial_address = 0xffffffff; sim.usec = 1; sim.cycle_count = 0; sim.nested_call_count = 0;
  ASSUME(sim.reg_pc < (1u << 24));
  lm_reset();
  struct _table_stm8_opcodes row;
  __CPROVER_havoc_object(&row);
  row.instr_enum = (WIDTH == 24) ? STM8_LDF : STM8_LD;
  row.dest = (nondet_int() & 1) ? OP_REG_A : OP_NONE; row.src = (row.dest == OP_REG_A) ? OP_NONE : OP_REG_A;
  const uint32_t pc0 = sim.reg_pc;
  int use_y = nondet_int() & 1;
  int r;
#if WIDTH == 8
  r = use_y ? sim.execute_op_offset8_index_y(&row) : sim.execute_op_offset8_index_x(&row);
#elif WIDTH == 16
  r = use_y ? sim.execute_op_offset16_index_y(&row) : sim.execute_op_offset16_index_x(&row);
#else
  r = use_y ? sim.execute_op_offset24_index_y(&row) : sim.execute_op_offset24_index_x(&row);
#endif
  OBL(sim.reg_pc == pc0 + WIDTH / 8, "C15.stm8: an indexed-operand decoder leaves the program counter at the next instruction (operand size consumed exactly), for X and for Y");
  (void)r;
  CANARY("h_stm8_ops end");
}
